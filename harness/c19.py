"""C19 - deepcopy and pickle reproduce any node tree, independent of the original.

Specification: spec/AyCopy.tla (the reconstruction protocol of ComposedNode.__reduce__ / _recreate / __setstate__
and ConfigScalar.__reduce__ as a step machine over a heap of node cells: Recreate, RestoreState, Attach in the pickle
order and in the copy.deepcopy order), roots spec/MC_AyCopy.tla (trees chosen from Parse / FoldDocs universes,
edits, mutations) and spec/Trace_AyCopy.tla (direction B), universes spec/Props_C19.tla (+ Props_C03/C04/C08 through
spec/GenUni19.tla).

Binding
  A (spec -> code): every (tree, protocol[, edit][, mutation]) behaviour TLC enumerates is replayed: the witness
     documents are rendered to YAML text, parsed / built through the real Builder, the tree is copied with
     copy.deepcopy, pickle protocols 2..5 (and copy.copy as an observation), both trees are projected with both views
     and all flags and compared with each other and with the tree TLC printed; original and copy are substituted into
     real merges (older and newer role) and evaluated; every enumerated mutation is applied for real and the other side
     re-projected; node identities of both trees must be disjoint.
  B (code -> spec): seeded random larger merged trees (function nodes, !xref, !required, !path, !include, '_' / shadowing
     keys, lists edited with insert / append / del) are copied under instrumented reconstruction hooks and mutated;
     the event order, the copy, the original after the copy and both trees after every mutation are validated by TLC
     against Trace_AyCopy (deviation switches = the library as it is), the property evaluated on the LOGGED state.
"""
import copy
import hashlib
import json
import multiprocessing as mp
import os
import pickle
import random
import sys
import time
from concurrent.futures import ThreadPoolExecutor

HERE = os.path.dirname(os.path.abspath(__file__))
if HERE not in sys.path:
    sys.path.insert(0, HERE)
import tlc  # noqa: E402
import sdoc as S  # noqa: E402

VERIF = os.path.dirname(HERE)
REPO = os.environ.get("AY_REPO", "/repo")
if REPO not in sys.path:
    sys.path.insert(0, REPO)

PROP = "C19"
SWITCHES = ["AttachRederivesFlags", "UnderscoreBypass", "ShadowKeyRaises", "InsertKeepsMapOrder"]
OLD_PROTOCOL_ONLY = {"AttachRederivesFlags", "UnderscoreBypass", "ShadowKeyRaises"}      # deviations of the re-attaching protocol
FORMULAS = ["Completes", "Faithful", "ContentFaithful", "Disjoint", "OrigUntouched", "Isolated", "Behaves"]

FINDINGS = {
    "AttachRederivesFlags": ("C19-rederived-flags",
                             "reconstruction attaches children through set_child: a child's inherited (implicit) delete / "
                             "allow_new / safe flags are overwritten with what the NEW parent derives (copy.deepcopy: always, "
                             "the state is restored before the children are attached; pickle: the child's own "
                             "_propagate_implicit_values runs over its children) - on merged trees the copy reports other "
                             "ayns.delete / allow_new / node_info than the original and merges differently"),
    "UnderscoreBypass": ("C19-underscore-key",
                         "a mapping entry whose key starts with '_' is re-attached with dict.__setitem__ only: the copy's "
                         "child map lacks it (walk, evaluation and Config drop the entry) [F2 seen from the copy]"),
    "ShadowKeyRaises": ("C19-shadow-key",
                        "a mapping key naming a dict attribute (items, values, keys, ...), accepted below a tagged node, makes "
                        "copy.deepcopy / pickle.loads raise ValueError: such a tree cannot be copied (nor evaluated by Config)"),
}

META = {
    "engine": "copy-machine",
    "design_ref": "DESIGN.md 5/C19",
    "technique": "TLC model checking of the reconstruction protocol (AyCopy: Recreate / RestoreState / Attach over a node heap, "
                 "pickle order and deepcopy order) on trees reachable through Parse and FoldDocs + behaviour replay into "
                 "copy.deepcopy / pickle 2..5 + TLC trace validation of instrumented copies of random merged trees",
    "text": "AyCopy models a tree as a heap of cells with two views per container and rebuilds it the way __reduce__ prescribes: "
            "a blank container without attributes, the state dict (all flags of all three levels, priority, metadata, target, "
            "reference point) applied last (pickle) or first (copy), children attached through the normal mutators whose "
            "hasattr guards decide whether the child is adopted. TLC checks on every tree of the parsed universe (every tag, every "
            "node kind) and of the 2-stage merged universes (C03/C04/C08 documents and a universe aimed at children whose "
            "inherited flags differ from what their parent derives) that the intended machine yields an equal record tree through "
            "both views (Faithful, ContentFaithful), completes, shares no cell (Disjoint), leaves the original alone, behaves "
            "equally in 12 merge contexts (Behaves) and is isolated under every mutation (action property Isolated); mutation cfgs "
            "AttachRederivesFlags, UnderscoreBypass, ShadowKeyRaises (the library today), ShallowChildren, StateBeforeGuard, "
            "IterChildMap must be refuted. Every enumerated behaviour is replayed into the library and compared node by node; "
            "failing and flag-mismatch cases and all recorded random copies are judged by TLC against the as-is machine.",
    "note": "trees without aliasing (one node object at two places); copy.copy is observed, not judged (a shallow copy is not in "
            "the statement); originals whose two container views disagree (list.insert, C17's F10) are judged on content only; "
            "!eval / !fstr nodes are copied and compared but never evaluated",
}
ENGINE = {"name": "copy-machine", "path": "harness/c19.py", "serves_properties": ["C19"],
          "kind_free_text": "TLC explicit-state model checking of spec/AyCopy.tla (MC_AyCopy, Trace_AyCopy), behaviour replay "
                            "(spec->code) and trace validation (code->spec) against copy.deepcopy / pickle of awesomeyaml node trees"}

ASSUMPTIONS = [
    "CPython 3.12.1 copy / pickle (protocols 2..5) and PyYAML as installed in /venv; awesomeyaml imported from AY_REPO",
    "TLC results hold for the bounded universes named in coverage.configs; direction B samples larger trees, it does not enumerate them",
    "the YAML renderer of harness/sdoc.py and the projection in harness/c19.py (both container views, all flags) are trusted",
    "trees do not alias one node object at two places; the model of a mutation is one attribute / container operation",
]

_KEEP = {"keep": False}


# --------------------------------------------------------------------------------------------------
# the real library: projection with both views, copies, hooks, mutations
# --------------------------------------------------------------------------------------------------
_LIB = {}


def lib():
    if not _LIB:
        import drive  # noqa  (puts AY_REPO on sys.path)
        import project as P
        from awesomeyaml.nodes.node import ConfigNode
        from awesomeyaml.nodes.composed import ComposedNode
        from awesomeyaml.nodes.list import ConfigList
        from awesomeyaml.nodes.dict import ConfigDict
        from awesomeyaml.builder import Builder
        from awesomeyaml.eval_context import EvalContext
        _LIB.update(P=P, ConfigNode=ConfigNode, ComposedNode=ComposedNode, ConfigList=ConfigList, ConfigDict=ConfigDict,
                    Builder=Builder, EvalContext=EvalContext, drive=drive)
    return _LIB


def _tri(v):
    return "N" if v is None else ("T" if v else "F")


def _native(name):
    try:
        return name.ayns.native_value
    except AttributeError:
        return name


def flat(node):
    """the AyTree record of one node (mirror of harness/project.project, plus !path's reference point)"""
    L = lib()
    P = L["P"]
    if not isinstance(node, L["ConfigNode"]):
        return {"k": "raw", "v": S.atom_of_py(node), "fn": "", "ref": [], "pr": 9, "del": "N", "idel": "N", "anew": "N", "ianew": "N",
                "safe": "N", "isafe": "N", "dsafe": "N", "md": []}
    k = P.kind_of(node)
    d = node.__dict__
    out = {"k": k, "v": list(S.NOVAL), "fn": "", "ref": [],
           "pr": 9 if d.get("_priority") is None else int(d["_priority"]),
           "del": _tri(d.get("_delete")), "idel": _tri(d.get("_implicit_delete")),
           "anew": _tri(d.get("_allow_new")), "ianew": _tri(d.get("_implicit_allow_new")),
           "safe": _tri(d.get("_safe")), "isafe": _tri(d.get("_implicit_safe")),
           "dsafe": _tri(d.get("_default_safe")) if d.get("_default_safe") is not None else "N",
           "md": sorted([[str(n), S.atom_of_py(v)] for n, v in (d.get("_metadata") or {}).items()])}
    if k in ("call", "bind"):
        f = d.get("_func")
        out["fn"] = str(f) if isinstance(f, str) else getattr(f, "__module__", "?") + "." + getattr(f, "__name__", "?")
    elif k == "path":
        out["fn"] = str(getattr(node, "ref_point", "") or "")
    elif k == "scalar":
        out["v"] = S.atom_of_py(node.ayns.native_value)
    elif k in ("xref", "prev"):
        out["ref"] = P.path_keys(str(node))
    elif k in ("eval", "fstr", "import"):
        out["v"] = S.atom_of_py(str(node))
    return out


def views(node):
    """(child map entries, built-in entries) of a container: [(native key, child object)]"""
    L = lib()
    cm = [(_native(n), c) for n, c in node._children.items()]
    if isinstance(node, list):
        bi = list(enumerate(list.__iter__(node)))
    elif isinstance(node, dict):
        bi = [(_native(n), c) for n, c in dict.items(node)]
    else:
        bi = [(i, c) for i, c in enumerate(tuple.__iter__(node))]
    return cm, bi


def dproj(node):
    """node with both views: flat fields + ch (child map) + py [[key, idx]] + xo (built-in only)"""
    L = lib()
    out = flat(node)
    out["ch"], out["py"], out["xo"] = [], [], []
    if isinstance(node, L["ComposedNode"]):
        cm, bi = views(node)
        out["ch"] = [[S.key_of_py(n), dproj(c)] for n, c in cm]
        pos = {}
        for i, (n, c) in enumerate(cm):
            pos.setdefault(id(c), i + 1)
        for n, c in bi:
            if id(c) in pos:
                idx = pos[id(c)]
            else:
                out["xo"].append(dproj(c))
                idx = len(cm) + len(out["xo"])
                pos[id(c)] = idx
            out["py"].append([S.key_of_py(n), idx])
    return out


def ptree(d):
    """child-map view only (what the TLA+ record tree / harness/project.project show)"""
    r = {k: v for k, v in d.items() if k not in ("py", "xo")}
    r["ch"] = [[k, ptree(c)] for k, c in d["ch"]]
    return r


def views_agree(d):
    return (not d["xo"] and len(d["py"]) == len(d["ch"])
            and all(d["py"][i] == [d["ch"][i][0], i + 1] for i in range(len(d["ch"])))
            and all(views_agree(c) for _, c in d["ch"]))


def pydata(d):
    """content through the built-in view (what native_value / iteration show)"""
    def sub(i):
        return d["ch"][i - 1][1] if i <= len(d["ch"]) else d["xo"][i - len(d["ch"]) - 1]
    return [d["k"] if d["k"] in ("call", "bind") else ("list" if d["k"] in ("list", "append", "extend", "path", "stream") else d["k"]),
            d["v"], d["fn"] if d["k"] in ("call", "bind") else "", [[k, pydata(sub(i))] for k, i in d["py"]]]


def jfix(n):
    """a record tree as TLC prints it -> the shape of ptree()"""
    return {"k": n["k"], "v": list(n["v"]), "fn": n["fn"], "ref": [dict(k) for k in n["ref"]], "pr": n["pr"], "del": n["del"], "idel": n["idel"],
            "anew": n["anew"], "ianew": n["ianew"], "safe": n["safe"], "isafe": n["isafe"], "dsafe": n["dsafe"],
            "md": sorted([list(e[0:1]) + [list(e[1])] for e in n.get("md", [])]),
            "ch": [[dict(k), jfix(c)] for k, c in n["ch"]]}


def all_nodes(node, seen=None):
    """every node object of a tree: values and key objects, through both views"""
    L = lib()
    seen = {} if seen is None else seen
    if id(node) in seen or not isinstance(node, L["ConfigNode"]):
        return seen
    seen[id(node)] = node
    for name, val in list(getattr(node, "__dict__", {}).items()):
        # nodes kept in attributes (a function node's target may be a string NODE, an include node's file names are)
        if name != "_children":
            for x in (val if isinstance(val, list) else [val]):
                if isinstance(x, L["ConfigNode"]):
                    all_nodes(x, seen)
    if isinstance(node, L["ComposedNode"]):
        for n, c in list(node._children.items()) + (list(dict.items(node)) if isinstance(node, dict) else [(None, c) for c in list.__iter__(node)] if isinstance(node, list) else []):
            if isinstance(n, L["ConfigNode"]):
                seen[id(n)] = n
            all_nodes(c, seen)
    return seen


def xattrs(node):
    """class-specific state the record does not carry"""
    d = node.__dict__ if hasattr(node, "__dict__") else {}
    return {"type": type(node).__name__, "src": d.get("_source_file"), "idx": repr(d.get("_idx")), "ref_point": d.get("ref_point"),
            "rpp": repr(d.get("_ref_point_parsed")), "files": repr([str(f) for f in d["filenames"]]) if "filenames" in d else "", "pns": repr(d.get("persistent_namespace")),
            "func": (type(d["_func"]).__name__ + ":" + str(d["_func"])) if isinstance(d.get("_func"), str)
            else getattr(d.get("_func"), "__qualname__", repr(d.get("_func"))),
            "keys": sorted(k for k in d if k not in ("_children", "_pyyaml_node")),
            "value": repr(node) if not isinstance(node, (list, dict, tuple)) else ""}


def xsame(a, b):
    """class-specific attributes equal, node by node along both views"""
    L = lib()
    if isinstance(a, L["ConfigNode"]) != isinstance(b, L["ConfigNode"]):
        return False
    if not isinstance(a, L["ConfigNode"]):
        return a == b
    xa, xb = xattrs(a), xattrs(b)
    xa.pop("value"), xb.pop("value")
    if xa != xb or type(a) is not type(b):
        return False
    if isinstance(a, (str, int, float)) and not (str(a) == str(b)):
        return False
    if isinstance(a, L["ComposedNode"]):
        ca, ba = views(a)
        cb, bb = views(b)
        if len(ca) != len(cb) or len(ba) != len(bb):
            return True       # structural differences are the record comparison's business
        return all(xsame(x[1], y[1]) for x, y in zip(ca, cb)) and all(xsame(x[1], y[1]) for x, y in zip(ba, bb))
    return True


def xdiff(a, b, path=""):
    """which class-specific attributes differ, as text"""
    L = lib()
    out = []
    if not (isinstance(a, L["ConfigNode"]) and isinstance(b, L["ConfigNode"])):
        return out if a == b else [f"{path or '<root>'}: {a!r} -> {b!r}"]
    xa, xb = xattrs(a), xattrs(b)
    xa.pop("value"), xb.pop("value")
    for k in xa:
        if xa[k] != xb.get(k):
            out.append(f"{path or '<root>'}: {k}: {xa[k]!r} -> {xb.get(k)!r}")
    if isinstance(a, L["ComposedNode"]) and isinstance(b, L["ComposedNode"]):
        for (n, x), (m, y) in zip(views(a)[1], views(b)[1]):
            out.extend(xdiff(x, y, path + "/" + str(n)))
    return out


VARIANTS = {"deepcopy": ["deepcopy"], "pickle": ["pickle2", "pickle3", "pickle4", "pickle5"], "copy": ["copy"]}


def proto_of(variant):
    return "pickle" if variant.startswith("pickle") else variant


def do_copy(variant, tree):
    if variant == "deepcopy":
        return copy.deepcopy(tree)
    if variant == "copy":
        return copy.copy(tree)
    k = int(variant[6:])
    return pickle.loads(pickle.dumps(tree, protocol=k))


class Hooks:
    """instruments the reconstruction hooks of ComposedNode for the duration of one copy"""

    def __init__(self):
        self.ev = []
        self.keep = []

    def __enter__(self):
        L = lib()
        C, CL, CD = L["ComposedNode"], L["ConfigList"], L["ConfigDict"]
        self.saved = (C.__dict__["_recreate"], C.__dict__["__setstate__"], CL.__dict__["append"], CD.__dict__["__setitem__"])
        rec0, set0, app0, item0 = C._recreate, self.saved[1], self.saved[2], self.saved[3]
        hooks = self

        def _recreate(cls):
            new = rec0(cls)
            hooks.keep.append(new)
            hooks.ev.append(("Recreate", id(new)))
            return new

        def __setstate__(self_, state):
            hooks.keep.append(self_)
            hooks.ev.append(("RestoreState", id(self_)))
            return set0(self_, state)

        def append(self_, value):
            hooks.keep.append(value)
            hooks.ev.append(("Attach", id(self_), id(value), len(self_)))
            return app0(self_, value)

        def __setitem__(self_, name, value):
            hooks.keep.append(value)
            hooks.ev.append(("Attach", id(self_), id(value), _native(name)))
            return item0(self_, name, value)

        C._recreate = staticmethod(_recreate)
        C.__setstate__ = __setstate__
        CL.append = append
        CD.__setitem__ = __setitem__
        return self

    def __exit__(self, *a):
        L = lib()
        C, CL, CD = L["ComposedNode"], L["ConfigList"], L["ConfigDict"]
        C._recreate, C.__setstate__, CL.append, CD.__setitem__ = self.saved
        return False

    def events(self, root=None):
        """events with the path of the node concerned: its place in the finished copy (built-in view names), or -
        when the copy failed - what the Attach edges seen so far tell"""
        parent = {}
        if root is not None:
            L = lib()

            def walk(node):
                if isinstance(node, L["ComposedNode"]):
                    cm, bi = views(node)
                    for n, c in bi + [(n, c) for n, c in cm if all(c is not x for _, x in bi)]:
                        if id(c) not in parent:
                            parent[id(c)] = (id(node), n)
                            walk(c)
            walk(root)
        for e in self.ev:
            if e[0] == "Attach":
                parent.setdefault(e[2], (e[1], e[3]))

        def path(i):
            p = []
            while i in parent:
                i, k = parent[i]
                p.append(S.key_of_py(k))
            return list(reversed(p))
        # only containers are hooked for Recreate / RestoreState; Attach is logged with the PARENT's path
        return [{"e": e[0], "path": path(e[1])} for e in self.ev]


def node_at(root, path):
    """the node a key path leads to (child map first, then built-in-only entries)"""
    L = lib()
    node = root
    for k in path:
        key = S.key_py(k)
        if not isinstance(node, L["ComposedNode"]):
            return None
        cm, bi = views(node)
        hit = [c for n, c in cm if n == key and type(n) is type(key)] or [c for n, c in bi if n == key and type(n) is type(key)]
        if not hit:
            return None
        node = hit[0]
    return node


def mut_enabled(op, node):
    L = lib()
    if node is None or not isinstance(node, L["ConfigNode"]):
        return False
    if op in ("MutSet", "MutDel", "MutClear"):
        if not isinstance(node, (L["ConfigList"], L["ConfigDict"])):
            return False
        cm, bi = views(node)
        if op == "MutDel":
            return len(cm) > 0 and [(n, id(c)) for n, c in cm] == [(n, id(c)) for n, c in bi]
        if op == "MutClear":
            return len(bi) > 0
        if op == "MutSet" and isinstance(node, dict):
            return all(n != "zz" for n, _ in bi)
    return True


def apply_mut(op, node):
    if op == "MutMd":
        node.ayns.metadata["zz"] = 9
    elif op == "MutPr":
        node._priority = -1 if node._priority == 1 else 1
    elif op == "MutSet":
        if isinstance(node, list):
            node.append(7)
        else:
            node["zz"] = 7
    elif op == "MutDel":
        if isinstance(node, list):
            del node[0]
        else:
            del node[_native(next(iter(node._children)))]
    elif op == "MutClear":
        node.clear()
    else:
        raise ValueError(op)


def apply_edit(root, e):
    node = node_at(root, e["path"])
    if e["op"] == "append":
        node.append(7)
    elif e["op"] == "insert":
        node.insert(e["pos"], 7)
    elif e["op"] == "del":
        del node[e["pos"]]
    elif e["op"] == "reverse":
        node.reverse()          # the inherited list.reverse: bypasses the child map
    else:
        raise ValueError(e["op"])


def build_case(case):
    """the original tree of a case {"docs": [SD], "mode": "parse"|"fold", "safes": [...], "edits": [...]}"""
    L = lib()
    docs, safes = case["docs"], case.get("safes") or [True] * len(case["docs"])
    if case["mode"] == "parse":
        b = L["Builder"]()
        b.add_source(S.render_doc(docs[0]), raw_yaml=True, safe=bool(safes[0]))
        tree = b.stages[0]
    else:
        tree = L["drive"].build_tree(docs, list(safes))
    for e in case.get("edits", []):
        apply_edit(tree, e)
    return tree


def pair_bad(o, c, oafter, st, shared, xs):
    """mirror of Trace_AyCopy!PairBad on projections"""
    bad = set()
    if st != "ok":
        bad.add("Completes")
    else:
        if views_agree(o) and not (c == o and xs):
            bad.add("Faithful")
        if pydata(c) != pydata(o):
            bad.add("ContentFaithful")
        if shared:
            bad.add("Disjoint")
    if oafter != o:
        bad.add("OrigUntouched")
    return bad


import contextlib


@contextlib.contextmanager
def ambient_defaults(on):
    """the copy is taken while the thread-local parse defaults are set (as inside Builder.add_source / a tag constructor):
    a copy must not pick anything up from them"""
    if not on:
        yield
        return
    L = lib()
    with L["ConfigNode"].default_filename("ambient.yaml"):
        with L["ConfigNode"].default_safe_flag(False):
            yield


def record_copy(case, variant, muts, tid=0):
    """copies the case's tree for real under instrumented hooks, applies the mutations, returns the trace record
    (Trace_AyCopy format) and the set of formulas the real objects break"""
    orig = build_case(case)
    amb = bool(case.get("ambient"))
    o = dproj(orig)
    rec = {"tid": tid, "proto": proto_of(variant), "variant": variant, "orig": o, "ev": [], "st": "ok", "copy": o, "origafter": o,
           "shared": 0, "xsame": True, "muts": []}
    cp = None
    h = Hooks()
    try:
        if variant.startswith("pickle"):
            data = pickle.dumps(orig, protocol=int(variant[6:]))      # __reduce__ / __getstate__ run here, un-instrumented
            with h, ambient_defaults(amb):
                cp = pickle.loads(data)
        else:
            with h, ambient_defaults(amb):
                cp = do_copy(variant, orig)
    except Exception as e:  # noqa
        rec["st"] = type(e).__name__
        rec["msg"] = str(e)[:300]
    rec["ev"] = h.events(cp)
    rec["origafter"] = dproj(orig)
    if cp is not None:
        rec["copy"] = dproj(cp)
        on, cn = all_nodes(orig), all_nodes(cp)
        rec["shared"] = len(set(on) & set(cn))
        rec["xsame"] = bool(xsame(orig, cp))
        if not rec["xsame"]:
            rec["xdiff"] = xdiff(orig, cp)[:8]
    bad = pair_bad(o, rec["copy"], rec["origafter"], rec["st"], rec["shared"], rec["xsame"])
    po, pc = rec["origafter"], rec["copy"]
    for m in muts:
        root = orig if m["side"] == "orig" else cp
        if root is None:
            continue
        node = node_at(root, m["path"])
        if not mut_enabled(m["op"], node):
            continue
        try:
            apply_mut(m["op"], node)
        except Exception as e:  # noqa
            rec.setdefault("muterr", []).append(type(e).__name__)
            continue
        no = dproj(orig)
        nc = dproj(cp) if cp is not None else rec["copy"]
        rec["muts"].append({"op": m["op"], "side": m["side"], "path": m["path"], "o": no, "c": nc})
        if cp is not None and ((m["side"] == "orig" and nc != pc) or (m["side"] == "copy" and no != po)):
            bad.add("Isolated")
        po, pc = no, nc
    return rec, bad


def merge_outcome(a, b):
    L = lib()
    try:
        r = a.ayns.merge(b)
        return ptree(dproj(r))
    except Exception as e:  # noqa
        return {"err": L["drive"].errclass(e)}


def _has_kind(d, kinds):
    return d["k"] in kinds or any(_has_kind(c, kinds) for _, c in d["ch"]) or any(_has_kind(c, kinds) for c in d["xo"])


def eval_outcome(tree):
    L = lib()
    import vmod
    del vmod.CALLS[:]
    try:
        r = L["EvalContext"]().evaluate(tree)
        return {"ok": _shape(r), "calls": len(vmod.CALLS)}
    except BaseException as e:  # noqa
        return {"err": type(e).__name__}


def _shape(v):
    if isinstance(v, dict):
        return ["dict", type(v).__name__, [[type(k).__name__, repr(k), _shape(c)] for k, c in v.items()]]
    if isinstance(v, (list, tuple)):
        return [type(v).__name__, [_shape(c) for c in v]]
    if type(v).__name__ == "Obj":
        return ["Obj"]
    if type(v).__name__ == "partial":
        return ["partial", getattr(v.func, "__name__", "?"), _shape(list(v.args)), _shape(dict(v.keywords))]
    return [type(v).__name__, repr(v)]


def behaves(case, variant, ctxs):
    """substitutes original and copy into real merges (older / newer role) and evaluates them; returns the list of
    differences [{"ctx": i, "role": .., "orig": .., "copy": ..}]"""
    diffs = []
    for i, ctx in ctxs:
        for role in ("older", "newer"):
            o, c = build_case(case), do_copy(variant, build_case(case))
            x1, x2 = build_case({"docs": [ctx], "mode": "fold"}), build_case({"docs": [ctx], "mode": "fold"})
            ro = merge_outcome(o, x1) if role == "older" else merge_outcome(x1, o)
            rc = merge_outcome(c, x2) if role == "older" else merge_outcome(x2, c)
            if ro != rc:
                diffs.append({"ctx": i, "role": role, "orig": ro, "copy": rc})
    o = build_case(case)
    if not _has_kind(dproj(o), ("eval", "fstr", "include", "import")):
        eo = eval_outcome(o)
        ec = eval_outcome(do_copy(variant, build_case(case)))
        if eo != ec:
            diffs.append({"ctx": -1, "role": "evaluate", "orig": eo, "copy": ec})
    return diffs


# --------------------------------------------------------------------------------------------------
# direction A: replay of one TLC behaviour
# --------------------------------------------------------------------------------------------------
_W = {}


def _init_worker(universes, ctxs, repo):
    os.environ["AY_REPO"] = repo
    _W["uni"] = universes
    _W["ctx"] = ctxs
    lib()


def _case_of_line(uname, mode, ln):
    uni = _W["uni"][uname]
    return {"docs": [uni[i - 1] for i in ln["h"]], "mode": mode, "safes": [bool(x) for x in ln["s"]],
            "edits": [{"op": e["op"], "pos": e["pos"], "path": [dict(k) for k in e["path"]]} for e in ln["e"]]}


def replay_line(args):
    """one behaviour of MC_AyCopy against the library.  Returns a small result dict."""
    uname, mode, ln, do_behaves, nctx = args
    case = _case_of_line(uname, mode, ln)
    case["ambient"] = (sum(ln["h"]) + len(ln["p"]) + len(ln["e"])) % 4 == 1
    res = {"u": uname, "h": ln["h"], "p": ln["p"], "n": 0, "bad": [], "drift": [], "obs": [], "mm": bool(ln.get("mm"))}
    want_o = jfix(ln["o"])
    mut = ln["m"] if ln["m"]["a"] != "none" else None
    muts = [{"op": mut["a"], "side": mut["side"], "path": [dict(k) for k in mut["path"]]}] if mut else []
    for variant in (VARIANTS[ln["p"]][-1:] if mut else VARIANTS[ln["p"]]):
        try:
            rec, bad = record_copy(case, variant, muts)
        except Exception as e:  # noqa  (the witness itself cannot be built: a renderer / model problem, never a verdict)
            res["drift"].append({"what": "build", "variant": variant, "err": type(e).__name__ + ": " + str(e)[:200]})
            continue
        res["n"] += 1
        o = rec["orig"]
        if ptree(o) != want_o and not any(d["what"] == "orig" for d in res["drift"]):
            # the library's ORIGINAL is not the tree the shared parse / merge model predicts (private flags, e.g. the
            # re-adoption of list elements shifted by an index deletion): not C19's business, the copy is judged against
            # the real original
            res["drift"].append({"what": "orig", "variant": variant, "diff": diff_lines({**want_o, "py": [], "xo": []}, {**ptree(o), "py": [], "xo": []})[:4]})
        if ln["p"] == "copy":
            # a shallow copy is not in the statement: what it does to the original is reported, not judged
            if rec["st"] != "ok" or ptree(rec["copy"]) != ptree(o) or rec["origafter"] != o:
                res["obs"].append({"variant": variant, "st": rec["st"], "copy_differs": ptree(rec["copy"]) != ptree(o), "orig_changed": rec["origafter"] != o})
            continue
        if mut and len(rec["muts"]) == 1:
            if ptree(rec["muts"][0]["o"]) != jfix(ln["o2"]) or (rec["st"] == "ok" and ln["st"] == "ok" and ptree(rec["muts"][0]["c"]) != jfix(ln["c2"])):
                if not bad:
                    res["drift"].append({"what": "mutation", "variant": variant, "m": mut})
        elif mut and rec["st"] == "ok":
            res["drift"].append({"what": "mutation-not-applied", "variant": variant, "m": mut})
        bh = []
        if do_behaves and rec["st"] == "ok" and not mut and variant == VARIANTS[ln["p"]][-1] and views_agree(o):
            nall = len(_W["ctx"])
            idx = range(nall) if nctx >= nall else sorted({(sum(ln["h"]) + j) % nall for j in range(nctx)})
            bh = behaves(case, variant, [(j, _W["ctx"][j]) for j in idx])
            if bh:
                bad = set(bad) | {"Behaves"}
        if bad or (ln.get("mm") and not mut):
            res["bad"].append({"variant": variant, "bad": sorted(bad), "rec": rec, "case": case, "behaves": bh[:4], "muts": muts,
                               "sig": diff_sig(rec["orig"], rec["copy"])})
    return res


# --------------------------------------------------------------------------------------------------
# direction B: seeded random merged trees
# --------------------------------------------------------------------------------------------------
def _gen_docs(rng):
    req = S.SD("required", None, form="tag")
    xref = S.SD("xref", None, form="tag", ref=[S.skey("a"), S.skey("b")])
    incl = S.SD("include", None, [[S.ikey(0), S.leaf("x.yaml")]], form="tag")
    ev = S.SD("eval", S.atom_of_py("1+1"), form="tag")
    imp = S.SD("import", S.atom_of_py("os.path"), form="tag")

    def path():
        sd = S.SD("path", None, [[S.ikey(i), S.leaf(rng.choice(["x", "y", ".."]))] for i in range(rng.randint(0, 3))], form="tag",
                  fn=rng.choice(["", "cwd", "parent(1)", "abs(/tmp/q)", "file"]))
        if sd["fn"] and rng.random() < 0.3:
            sd["form"] = "md"
            sd["md"] = [["m", S.atom_of_py(1)]]
            sd["del"] = rng.choice(["N", "F"])
        return sd
    shadow = S.with_tag(S.mapping([(rng.choice(["items", "values", "keys"]), S.leaf(1)), ("b", S.leaf(2))]), "force")
    under = S.mapping([("_x", S.leaf(1)), ("b", S.sequence([S.leaf(1), S.leaf(2)]))])
    extra = [req, req, xref, xref, incl, ev, imp, path(), path(), path(), under, under]
    if rng.random() < 0.12:
        extra.append(shadow)
    n = rng.choice([1, 2, 2, 2, 3])
    docs = []
    for _ in range(n):
        g = S.Gen(rng, keys=("a", "b", "c", "_y"), atoms=(1, 2, "x", None, True, 2.5, 0),
                  tags=("force", "weak", "del", "merge", "new", "notnew", "unsafe", "md"),
                  max_depth=rng.choice([2, 3, 4]), max_width=3, p_list=0.4, p_tag=0.35, p_empty=0.06, p_call=0.07, leaf_extra=extra)
        d = g.doc()
        docs.append(d)
    return docs


def _fix_calls(sd):
    """the generator's call nodes name m.f: use the harness' recording target, sometimes !bind"""
    if sd["k"] == "call":
        sd["fn"] = "vmod.rec"
    for _, c in sd["ch"]:
        _fix_calls(c)
    return sd


def _lists_of(tree, path=()):
    L = lib()
    out = []
    if isinstance(tree, L["ComposedNode"]):
        if isinstance(tree, L["ConfigList"]):
            out.append(list(path))
        for n, c in tree._children.items():
            out.extend(_lists_of(c, path + (S.key_of_py(_native(n)),)))
    return out


def _paths_of(tree, path=()):
    L = lib()
    out = [list(path)]
    if isinstance(tree, L["ComposedNode"]):
        for n, c in tree._children.items():
            out.extend(_paths_of(c, path + (S.key_of_py(_native(n)),)))
    return out


def gen_case(seed, tid):
    """a random merged tree that builds, with random list edits; deterministic in (seed, tid)"""
    rng = random.Random(seed * 1000003 + tid)
    for attempt in range(40):
        docs = [_fix_calls(d) for d in _gen_docs(rng)]
        case = {"docs": docs, "mode": "fold" if (len(docs) > 1 or rng.random() < 0.5) else "parse", "safes": [rng.random() < 0.85 for _ in docs], "edits": [],
                "ambient": rng.random() < 0.3}
        try:
            tree = build_case(case)
        except Exception:  # noqa
            continue
        if tree is None or not isinstance(tree, lib()["ComposedNode"]):
            continue
        # edits: insert below the end (what m2 needs), append, delete
        lists = _lists_of(tree)
        nedit = rng.choice([0, 1, 1, 2, 3]) if lists else 0
        ok = True
        for _ in range(nedit):
            p = rng.choice(lists)
            node = node_at(tree, p)
            n = len(node)
            r = rng.random()
            if n >= 1 and r < 0.5:
                e = {"op": "insert", "path": p, "pos": rng.randrange(n)}
            elif n >= 2 and r < 0.65:
                e = {"op": "reverse", "path": p, "pos": 0}
            elif n >= 1 and r < 0.78:
                e = {"op": "del", "path": p, "pos": rng.randrange(n)}
            else:
                e = {"op": "append", "path": p, "pos": 0}
            try:
                apply_edit(tree, e)
            except Exception:  # noqa
                ok = False
                break
            case["edits"].append(e)
            lists = _lists_of(tree)
        if not ok:
            continue
        paths = _paths_of(tree)
        muts = []
        for _ in range(rng.choice([0, 1, 2, 3])):
            muts.append({"op": rng.choice(["MutMd", "MutPr", "MutSet", "MutDel", "MutClear", "MutSet"]), "side": rng.choice(["orig", "copy"]),
                         "path": rng.choice(paths)})
        variant = rng.choice(["deepcopy", "deepcopy", "pickle2", "pickle3", "pickle4", "pickle5"])
        return case, variant, muts
    raise RuntimeError("no buildable history found")


def _record_chunk(args):
    tids, seed = args
    out = []
    for tid in tids:
        case, variant, muts = gen_case(seed, tid)
        rec, bad = record_copy(case, variant, muts, tid=tid)
        out.append({"tid": tid, "case": case, "variant": variant, "muts": muts, "rec": rec, "bad": sorted(bad)})
    return out


# --------------------------------------------------------------------------------------------------
# TLC
# --------------------------------------------------------------------------------------------------
SPEC_DEPS = ["AyTree", "AyParse", "AyMerge", "AyUniverse", "AyCmdline", "Uni", "Props_C03", "Props_C04", "Props_C08", "Props_C19", "GenUni19"]


def _dep_hash():
    h = hashlib.sha1()
    for m in SPEC_DEPS:
        h.update(open(os.path.join(tlc.SPEC, m + ".tla"), "rb").read())
    return h.hexdigest()[:12]


def gen_universe(docs_expr, range_expr="WholeRange", timeout=600):
    """evaluates a universe expression once (TLC on spec/GenUni19.tla), cached under work/unicache by the hash of the
    modules it depends on"""
    cdir = os.path.join(tlc.WORK, "unicache")
    os.makedirs(cdir, exist_ok=True)
    path = os.path.join(cdir, f"c19_{_dep_hash()}_{docs_expr}_{range_expr}.json")
    if os.path.exists(path):
        return path, json.load(open(path))
    wd = tlc.workdir("C19_genuni")
    try:
        cfg = tlc.cfg_text(init="Init", next_="Next", constants={"UDocs": "<- " + docs_expr, "URange": "<- " + range_expr})
        r = tlc.run("GenUni19", cfg, wd, workers=1, timeout=timeout, heap="3g")
        for v in tlc.json_prints(r["out"]):
            if "universe" in v:
                uni = {"docs": v["universe"], "range": v["range"]}
                tmp = path + ".tmp%d" % os.getpid()
                json.dump(uni, open(tmp, "w"))
                os.replace(tmp, path)
                return path, uni
        raise tlc.TLCError("GenUni19 did not print the universe " + docs_expr + "\n" + r["out"][-2000:])
    finally:
        tlc.cleanup(wd)


def active_switches():
    """the deviation switches that describe the library as it is: all, minus those a `fixed` entry of known_findings.json
    names (and minus C19_SWITCHES_OFF=a,b for trying a fix in a scratch worktree)"""
    off = set(x for x in os.environ.get("C19_SWITCHES_OFF", "").split(",") if x)
    try:
        for f in json.load(open(os.path.join(VERIF, "known_findings.json")))["findings"]:
            if f.get("kind") == "fixed" and f.get("deviation") in SWITCHES:
                off.add(f["deviation"])
    except Exception:  # noqa
        pass
    if state_carries_children():
        off |= OLD_PROTOCOL_ONLY          # no mutator takes part in the reconstruction any more
    return [s for s in SWITCHES if s not in off]


_PROTO = {}


def state_carries_children():
    """which reconstruction protocol the library under test implements: does __reduce__ hand out item iterators
    (children re-attached through the mutators) or does the state carry the children (proposed repair)?"""
    if "v" not in _PROTO:
        L = lib()
        r = L["ConfigNode"]([1]).__reduce__()
        _PROTO["v"] = len(r) < 4 or (r[3] is None and (len(r) < 5 or r[4] is None))
    return _PROTO["v"]


def _consts(on, protos=("pickle", "deepcopy"), maxmut=0, maxedits=0, mode="fold", smin=1, smax=1, safes="{TRUE}", ctx=True, mutation=None,
            scc=None):
    c = {s: ("TRUE" if s in on else "FALSE") for s in SWITCHES}
    c["StateCarriesChildren"] = "TRUE" if (state_carries_children() if scc is None else scc) else "FALSE"
    c.update({"Protocols": "{" + ", ".join(json.dumps(p) for p in protos) + "}", "MaxMut": str(maxmut), "MaxEdits": str(maxedits),
              "Mode": json.dumps(mode), "MinStages": str(smin), "MaxStages": str(smax), "SafeFlags": safes,
              "CtxOn": "TRUE" if ctx else "FALSE"})
    if mutation:
        c["Mutation"] = json.dumps(mutation)
    return c


INVS = ["Inv_Completes", "Inv_Faithful", "Inv_ContentFaithful", "Inv_CopyConsistent", "Inv_Disjoint", "Inv_OrigUntouched", "Inv_Behaves"]


def mc_cfg(consts, invariants, emit, isolated):
    cfg = tlc.cfg_text(spec="MSpec" if isolated else None, init="MInit", next_="MNext", constants=consts,
                       invariants=list(invariants) + (["Emit"] if emit else []), view="View",
                       properties=["Prop_Isolated"] if isolated else ())
    return cfg


def run_mc(name, upath, cfg, workers, timeout):
    wd = tlc.workdir("C19_" + name.replace("/", "_"))
    try:
        r = tlc.run("MC_AyCopy", cfg, wd, workers=workers, timeout=timeout, env={"UNIVERSE_FILE": upath}, heap="6g")
        r["name"] = name
        return r
    finally:
        if not _KEEP["keep"]:
            tlc.cleanup(wd)


def _strip_trace(rec):
    return {k: rec[k] for k in ("tid", "proto", "orig", "ev", "st", "copy", "origafter", "shared", "xsame", "muts")}


def validate_traces(recs, on, name, workers=4, timeout=900, chunk=120):
    """TLC trace validation (Trace_AyCopy) of trace records, in parallel TLC processes; returns {tid: verdict}, stats"""
    if not recs:
        return {}, {"distinct": 0, "generated": 0, "wall": 0.0}
    chunks = [recs[i:i + chunk] for i in range(0, len(recs), chunk)]
    consts = _consts(on, maxmut=99)
    for k in ("Mode", "MinStages", "MaxStages", "SafeFlags", "CtxOn"):
        consts.pop(k)
    cfg = tlc.cfg_text(init="TInit", next_="TNext", constants=consts, invariants=["Report"])

    def one(i):
        wd = tlc.workdir(f"C19_{name}_{i}")
        try:
            tf = os.path.join(wd, "traces.ndjson")
            with open(tf, "w") as f:
                for r in chunks[i]:
                    f.write(json.dumps(_strip_trace(r)) + "\n")
            r = tlc.run("Trace_AyCopy", cfg, wd, workers=workers, timeout=timeout, env={"TRACE_FILE": tf}, heap="4g")
            if r["violated"]:
                raise tlc.TLCError("the trace specification reported a violation of its own: %s\n%s" % (r["violated"], r["out"][-2000:]))
            return r
        finally:
            if not _KEEP["keep"]:
                tlc.cleanup(wd)
    t0 = time.time()
    with ThreadPoolExecutor(min(4, len(chunks))) as ex:
        rs = list(ex.map(one, range(len(chunks))))
    verdicts, st = {}, {"distinct": 0, "generated": 0, "wall": time.time() - t0}
    for r in rs:
        st["distinct"] += r["distinct"]
        st["generated"] += r["generated"]
        for v in tlc.json_prints(r["out"], marker="trace"):
            verdicts[v["trace"]] = v
    return verdicts, st


# --------------------------------------------------------------------------------------------------
# replay files
# --------------------------------------------------------------------------------------------------
def describe(case, variant, muts):
    txt = []
    for i, d in enumerate(case["docs"]):
        txt.append(f"# source {i + 1}" + ("" if (case.get("safes") or [True] * 9)[i] else " (safe=False)") + "\n" + S.render_doc(d))
    how = "tree = Builder().add_source(..).stages[0]" if case["mode"] == "parse" else "tree = Builder().add_source(..)...build()"
    txt.append(how)
    for e in case.get("edits", []):
        p = S._path_text(e["path"])
        txt.append({"append": f"tree.ayns.get_node({p!r}).append(7)", "insert": f"tree.ayns.get_node({p!r}).insert({e['pos']}, 7)",
                    "del": f"del tree.ayns.get_node({p!r})[{e['pos']}]", "reverse": f"tree.ayns.get_node({p!r}).reverse()"}[e["op"]])
    cp = {"deepcopy": "cp = copy.deepcopy(tree)", "copy": "cp = copy.copy(tree)"}.get(variant, f"data = pickle.dumps(tree, protocol={variant[6:]}); cp = pickle.loads(data)")
    if case.get("ambient"):
        cp = "with ConfigNode.default_filename('ambient.yaml'), ConfigNode.default_safe_flag(False):  " + cp.split("; ")[-1] + \
             ("   # (after " + cp.split("; ")[0] + ")" if "; " in cp else "")
    txt.append(cp)
    for m in muts:
        txt.append(f"{m['op']} on {'tree' if m['side'] == 'orig' else 'cp'} at {S._path_text(m['path'])!r}")
    return txt


def diff_lines(o, c, path=""):
    """flag / content differences between two projections, as text"""
    out = []
    fo = {k: v for k, v in o.items() if k not in ("ch", "py", "xo")}
    fc = {k: v for k, v in c.items() if k not in ("ch", "py", "xo")}
    if fo != fc:
        out.append(f"{path or '<root>'}: " + ", ".join(f"{k}: {fo[k]!r} -> {fc.get(k)!r}" for k in fo if fo[k] != fc.get(k)))
    ko, kc = [S._key_text(k) for k, _ in o["ch"]], [S._key_text(k) for k, _ in c["ch"]]
    if ko != kc:
        out.append(f"{path or '<root>'}: child map {ko} -> {kc}")
    if [S._key_text(k) for k, _ in o.get("py", [])] != [S._key_text(k) for k, _ in c.get("py", [])] or len(o.get("xo", [])) != len(c.get("xo", [])):
        out.append(f"{path or '<root>'}: built-in view {[S._key_text(k) for k, _ in o.get('py', [])]} (+{len(o.get('xo', []))} outside the child map)"
                   f" -> {[S._key_text(k) for k, _ in c.get('py', [])]} (+{len(c.get('xo', []))})")
    for (k1, a), (k2, b) in zip(o["ch"], c["ch"]):
        if k1 == k2:
            out.extend(diff_lines(a, b, path + "/" + S._key_text(k1)))
    return out


def diff_sig(o, c):
    """which fields differ anywhere between two projections (a coarse signature of a disagreement)"""
    sig = set()

    def walk(a, b):
        for k in a:
            if k in ("ch", "xo"):
                continue
            if a[k] != b.get(k):
                sig.add(k)
        if len(a["ch"]) != len(b["ch"]) or len(a["xo"]) != len(b["xo"]):
            sig.add("shape")
            return
        for (k1, x), (k2, y) in zip(a["ch"], b["ch"]):
            if k1 != k2:
                sig.add("keys")
            walk(x, y)
        for x, y in zip(a["xo"], b["xo"]):
            walk(x, y)
    walk(o, c)
    return sorted(sig)


def write_replay(case, variant, muts, info):
    d = os.path.join(VERIF, "replays", PROP)
    os.makedirs(d, exist_ok=True)
    body = {"property": PROP, "case": case, "variant": variant, "muts": muts, "calls": describe(case, variant, muts)}
    body.update(info)
    sha = hashlib.sha256(json.dumps({"c": case, "v": variant, "m": muts, "x": info.get("ctx")}, sort_keys=True).encode()).hexdigest()[:16]
    path = os.path.join(d, sha + ".json")
    with open(path, "w") as f:
        json.dump(body, f, indent=1, sort_keys=True)
    return path


def classify(bad, verdict, on):
    """bad: formulas the REAL objects break; verdict: TLC's verdict on the trace under the as-is switches (or None).
    -> ("ok" | "known" | "violation" | "drift", fired switches)"""
    bad = set(bad)
    if verdict is None:
        return ("violation" if bad else "ok"), []
    fired = [s for s in verdict.get("fired", []) if s in on]
    explained = verdict["verdict"] == "ok" and (bad - {"Behaves"}) <= set(verdict.get("mbad", [])) and \
        (("Behaves" not in bad) or bool(verdict.get("mbad")))
    if bad:
        if explained and fired:
            return "known", fired
        return "violation", fired
    if verdict["verdict"] != "ok":
        return "drift", fired
    return "ok", fired


def run_replay(path):
    body = json.load(open(path))
    case, variant, muts = body["case"], body["variant"], body["muts"]
    os.environ["AY_REPO"] = REPO
    for ln in describe(case, variant, muts):
        print("  " + ln.replace("\n", "\n  "))
    rec, bad = record_copy(case, variant, muts, tid=1)
    bh = []
    if rec["st"] == "ok" and body.get("ctx") is not None:
        bh = behaves(case, variant, [(i, c) for i, c in body["ctx"]])
        if bh:
            bad.add("Behaves")
    print("  copy status:", rec["st"], rec.get("msg", ""))
    for ln in diff_lines(rec["orig"], rec["copy"])[:20]:
        print("  original -> copy  " + ln)
    for ln in rec.get("xdiff", []):
        print("  original -> copy  " + ln)
    if rec["st"] == "ok" and pydata(rec["orig"]) != pydata(rec["copy"]):
        def nat(d):
            def sub(i):
                return d["ch"][i - 1][1] if i <= len(d["ch"]) else d["xo"][i - len(d["ch"]) - 1]
            if d["k"] in ("list", "append", "extend", "path", "stream"):
                return [nat(sub(i)) for _, i in d["py"]]
            if d["k"] in ("dict", "call", "bind"):
                return {S._key_text(k): nat(sub(i)) for k, i in d["py"]}
            return S.atom_py(d["v"]) if d["k"] == "scalar" else "!" + d["k"]
        print("  content through the built-in view (list / dict itself):")
        print("    original:", json.dumps(nat(rec["orig"]))[:400])
        print("    copy    :", json.dumps(nat(rec["copy"]))[:400])
    for ln in diff_lines(rec["orig"], rec["origafter"])[:10]:
        print("  original before -> after the copy  " + ln)
    for b in bh[:4]:
        print("  merge/evaluation differs:", json.dumps(b)[:600])
    print("  formulas broken on the real objects:", sorted(bad))
    on = active_switches()
    verdicts, _ = validate_traces([rec], on, "replay", workers=2)
    v = verdicts.get(1)
    print("  TLC (as-is machine) verdict:", json.dumps({k: v[k] for k in ("verdict", "lbad", "mbad", "fired")}) if v else "trace not consumed")
    cls, fired = classify(bad, v, on)
    print("  ->", cls, fired)
    return [path] if cls == "violation" else []


# --------------------------------------------------------------------------------------------------
# the check
# --------------------------------------------------------------------------------------------------
def plan(tier):
    """(name, docs expr, range expr, mode, stages, kwargs of _consts, isolated?, behaves-every-nth)"""
    q = tier == "quick"
    P = [
        # parsed single documents: every tag, every node kind (the tree a Builder stage holds)
        ("parsed", "C19_ParsedQ" if q else "C19_Parsed", "WholeRange", "parse", (1, 1), dict(protos=("pickle", "deepcopy")), False, 16 if q else 8),
        # small parsed set: three protocols, both safe flags
        ("parsed-small", "C19_ParsedS", "WholeRange", "parse", (1, 1), dict(protos=("pickle", "deepcopy", "copy"), safes="{TRUE, FALSE}"), False, 4),
        # ... x every mutation of either side (action property Isolated)
        ("parsed-mut", "C19_ParsedS", "WholeRange", "parse", (1, 1), dict(protos=("pickle", "deepcopy"), maxmut=1, ctx=False), True, 0),
        ("lists-edit", "C19_Lists", "WholeRange", "fold", (1, 1), dict(protos=("pickle", "deepcopy"), maxedits=1 if q else 2, maxmut=0), False, 1),
        ("keys", "C19_Keys", "WholeRange", "parse", (1, 1), dict(protos=("pickle", "deepcopy")), False, 1),
        # merged trees
        ("hist", "C19_HistQ" if q else "C19_Hist", "C19_HistRangeQ" if q else "C19_HistRange", "fold", (2, 2), dict(protos=("pickle", "deepcopy")), False, 24 if q else 12),
        ("c03-md", "C03_DocsMd", "WholeRange", "fold", (2, 2), dict(protos=("pickle", "deepcopy")), False, 8 if q else 1),
        ("c08-del", "C08_DocsD", "C08_RangeD", "fold", (2, 2), dict(protos=("pickle", "deepcopy")), False, 16 if q else 6),
        ("c04-lists", "C04_DocsL", "C04_RangeL", "fold", (2, 2) if q else (2, 3), dict(protos=("pickle", "deepcopy")), False, 8 if q else 2),
    ]
    if not q:
        P += [("c03", "C03_Docs", "WholeRange", "fold", (2, 2), dict(protos=("pickle", "deepcopy")), False, 8),
              ("c03-3", "C03_DocsMdS", "WholeRange", "fold", (3, 3), dict(protos=("pickle", "deepcopy")), False, 16),
              ("c08", "C08_Docs", "C08_Range", "fold", (2, 2), dict(protos=("pickle", "deepcopy")), False, 32),
              ("hist-mut", "C19_HistM", "C19_HistRangeM", "fold", (2, 2), dict(protos=("pickle", "deepcopy"), maxmut=1, ctx=False), True, 0)]
    return P


MUTATIONS = [
    # (name, universe, range, mode, stages, switches on, Mutation, consts, expected to break)
    ("AttachRederivesFlags", "C19_HistM", "C19_HistRangeM", "fold", (2, 2), ["AttachRederivesFlags"], None, dict(), ["Inv_Faithful", "Inv_Behaves"]),
    ("UnderscoreBypass", "C19_Keys", "WholeRange", "parse", (1, 1), ["UnderscoreBypass"], None, dict(), ["Inv_Faithful", "Inv_CopyConsistent"]),
    ("ShadowKeyRaises", "C19_Keys", "WholeRange", "parse", (1, 1), ["ShadowKeyRaises"], None, dict(), ["Inv_Completes"]),
    ("ShallowChildren", "C19_ParsedS", "WholeRange", "parse", (1, 1), [], "ShallowChildren", dict(maxmut=1), ["Inv_Disjoint", "Prop_Isolated"]),
    ("StateBeforeGuard", "C19_ParsedS", "WholeRange", "parse", (1, 1), ["AttachRederivesFlags"], "StateBeforeGuard", dict(protos=("pickle",)), ["Inv_Faithful", "Inv_Behaves"]),
    ("IterChildMap", "C19_Lists", "WholeRange", "fold", (1, 1), [], "IterChildMap", dict(maxedits=1), ["Inv_ContentFaithful"]),
]


def observations():
    """probes outside the enumerated universes (reported in the evidence, never a verdict)"""
    L = lib()
    out = []
    try:
        t = L["ConfigNode"]({"a": (1, 2)})
        try:
            copy.deepcopy(t)
            out.append({"what": "ConfigTuple (only constructible from Python data) can be deep-copied", "ok": True})
        except Exception as e:  # noqa
            out.append({"what": "a tree holding a ConfigTuple (ConfigNode({'a': (1, 2)}), not reachable from YAML) cannot be copied",
                        "exception": type(e).__name__ + ": " + str(e)[:120]})
    except Exception as e:  # noqa
        out.append({"what": "ConfigTuple probe failed", "exception": type(e).__name__})
    try:
        case = {"docs": [S.mapping([("a", S.mapping([("b", S.with_tag(S.leaf(1), "force"))]))]), S.mapping([("a", S.with_tag(S.mapping([]), "del"))])],
                "mode": "fold"}
        t = build_case(case)
        before = dproj(t)
        copy.copy(node_at(t, [S.skey("a")]))
        d = diff_lines(before, dproj(t))
        out.append({"what": "copy.copy(tree['a']) of `a: {b: !force 1}` <- `a: !del {}` (a shallow copy is not in the statement)",
                    "original_changed": d})
    except Exception as e:  # noqa
        out.append({"what": "copy.copy probe failed", "exception": type(e).__name__})
    return out


def run(prop, tier, seed, replay, keep):
    _KEEP["keep"] = keep
    os.environ["AY_REPO"] = REPO
    if replay:
        v = run_replay(replay)
        return {"violations": v, "known_lines": [], "drift": 0, "level": "model_checking", "coverage": {}, "assumptions": ASSUMPTIONS,
                "summary": {"replayed": 1}}
    t0 = time.time()
    quick = tier == "quick"
    rdir = os.path.join(VERIF, "replays", PROP)
    if os.path.isdir(rdir):
        for fn in os.listdir(rdir):
            if fn.endswith(".json"):
                os.remove(os.path.join(rdir, fn))
    ON = active_switches()
    tmo = 500 if quick else 1700
    cov = {"configs": [], "mutations": [], "states": 0, "transitions": 0, "traces_validated_against_impl": 0, "samples": [],
           "evaluations": 0, "distinct_nontrivial": 0, "exhaustive": True, "deviation_switches_on": ON,
           "protocol": "state carries the children (no mutator involved)" if state_carries_children() else
                       "children re-attached through append / __setitem__ (composed.py __reduce__ with item iterators)"}
    violations, drift, known_hits = [], 0, {}
    drift_notes = []

    # ---- universes (cached by the hash of the modules they are defined in)
    PL = plan(tier)
    need = {(d, r) for _, d, r, *_ in PL} | {(u, r) for _, u, r, *_ in MUTATIONS} | {("C19_CtxSD", "WholeRange")}
    with ThreadPoolExecutor(4) as ex:
        unis = dict(zip(sorted(need), ex.map(lambda a: gen_universe(*a), sorted(need))))
    ctxs = unis[("C19_CtxSD", "WholeRange")][1]["docs"]
    universes = {d: unis[(d, r)][1]["docs"] for (d, r) in need}

    pool = mp.get_context("fork").Pool(16, initializer=_init_worker, initargs=(universes, ctxs, REPO))
    try:
        # ---- direction B recording starts first (pure python, runs while TLC explores)
        ntr = 400 if quick else 4000
        per = 25
        rec_async = pool.map_async(_record_chunk, [(list(range(a, min(a + per, ntr + 1))), seed) for a in range(1, ntr + 1, per)])

        # ---- TLC: the intended machine on every universe (invariants + Emit), mutation cfgs
        jobs = []
        for name, docs, rng, mode, (smin, smax), kw, isolated, _bn in PL:
            c = _consts([], mode=mode, smin=smin, smax=smax, **kw)
            jobs.append(("intended/" + name, unis[(docs, rng)][0], mc_cfg(c, INVS, True, isolated), 6 if name in ("hist", "parsed", "c04", "c08", "hist-mut") else 3))
        for name, docs, rng, mode, (smin, smax), sw, mu, kw, expect in MUTATIONS:
            c = _consts(sw, mode=mode, smin=smin, smax=smax, mutation=mu, scc=False, **kw)
            jobs.append(("mutation/" + name, unis[(docs, rng)][0], mc_cfg(c, [e for e in expect if e.startswith("Inv_")] or INVS, False, "Prop_Isolated" in expect), 3))
            if mu == "ShallowChildren":       # Disjoint is found first: Isolated is checked in a run of its own
                jobs.append(("mutation/ShallowChildren-isolated", unis[(docs, rng)][0], mc_cfg(c, [], False, True), 3))
        byname, asyncs = {}, {}
        with ThreadPoolExecutor(max_workers=4 if quick else 3) as ex:
            from concurrent.futures import as_completed
            futs = {ex.submit(run_mc, n, up, cfg, w, tmo): n for n, up, cfg, w in jobs}
            for fu in as_completed(futs):
                r = fu.result()
                byname[r["name"]] = r
                if r["name"].startswith("intended/"):
                    nm = r["name"][9:]
                    ent = [p for p in PL if p[0] == nm][0]
                    if r["violated"]:
                        cex = [v for v in tlc.json_prints(r["out"]) if "cex" in v]
                        raise tlc.TLCError(f"the intended machine violates {r['violated']} on {nm}: the design does not satisfy the "
                                           f"property\n" + (json.dumps(cex[0])[:3000] if cex else r["out"][-3000:]))
                    lines = [v for v in tlc.json_prints(r["out"]) if "od" in v]
                    r["out"] = r["out"][-2000:]
                    bn = ent[7]
                    lines.sort(key=lambda ln: json.dumps([ln["h"], ln["s"], ln["p"], ln["e"], ln["m"]], sort_keys=True))   # TLC's print order is not deterministic
                    def pick(ln):       # which behaviours are also substituted into real merges and evaluated
                        if not bn or ln["p"] == "copy":
                            return False
                        hv = sum(ln["h"]) * 7 + len(ln["p"])
                        if ln.get("mm"):
                            return hv % (4 if quick else 3) == 0
                        return hv % bn == 0
                    args = [(ent[1], ent[3], ln, pick(ln), 6 if (ln.get("mm") or not quick) else 2) for ln in lines]
                    asyncs[nm] = (lines, pool.map_async(replay_line, args, chunksize=max(1, len(args) // 256)))
        t_tlc = time.time() - t0

        # ---- judge the mutation cfgs (vacuity guard)
        for name, docs, rng, mode, st, sw, mu, kw, expect in MUTATIONS:
            r = byname["mutation/" + name]
            got = set(r["violated"])
            ok = bool(got) and (got & set(expect) or "<temporal>" in got or "Prop_Isolated" in got)
            cov["mutations"].append({"mutation": name, "universe": docs, "switches": sw, "design_mutation": mu, "refuted_by_tlc": bool(got),
                                     "violated": sorted(got), "states": r["distinct"], "tlc_wall_s": round(r["wall"], 1)})
            if not ok:
                raise tlc.TLCError(f"mutation cfg {name} was not refuted as expected ({sorted(got)}): the formulas are vacuous on {docs}\n" + r["out"][-1500:])
        r = byname["mutation/ShallowChildren-isolated"]
        cov["mutations"].append({"mutation": "ShallowChildren (action property Isolated)", "universe": "C19_ParsedS", "refuted_by_tlc": bool(r["violated"]),
                                 "violated": sorted(set(r["violated"])), "states": r["distinct"], "tlc_wall_s": round(r["wall"], 1)})
        if not r["violated"]:
            raise tlc.TLCError("mutation ShallowChildren does not break the action property Isolated: it is vacuous\n" + r["out"][-1500:])

        # ---- direction A results
        pending = []      # (case, variant, muts, bad, rec, behaves)
        tid_next = 10 ** 6
        shallow_obs = 0
        for name, docs, rng, mode, stages, kw, isolated, bn in PL:
            r = byname["intended/" + name]
            lines, asy = asyncs[name]
            results = asy.get(timeout=tmo)
            n_cases = sum(x["n"] for x in results)
            nbad = nmm = nd = nbeh = 0
            for x, ln in zip(results, lines):
                for dd in x["drift"]:
                    nd += 1
                    if len(drift_notes) < 6:
                        drift_notes.append({"universe": name, "h": x["h"], **dd})
                shallow_obs += len(x["obs"])
                for b in x["bad"]:
                    if b["bad"]:
                        nbad += 1
                    else:
                        nmm += 1
                    rec = b["rec"]
                    rec["tid"] = tid_next
                    pending.append({"tid": tid_next, "u": name, "case": b["case"], "variant": b["variant"], "muts": b["muts"], "bad": b["bad"],
                                    "rec": rec, "behaves": b["behaves"], "sig": b["sig"]})
                    tid_next += 1
            drift += nd
            cov["configs"].append({"universe": name, "docs_expr": docs, "documents": len(universes[docs]), "mode": mode, "stages": list(stages),
                                   "constants": {k: v for k, v in _consts([], mode=mode, smin=stages[0], smax=stages[1], **kw).items() if k not in SWITCHES},
                                   "states": r["distinct"], "transitions": r["generated"], "behaviours": len(lines),
                                   "copies_replayed": n_cases, "property_broken_on_real_objects": nbad, "flag_mismatch_trees_sent_to_tlc": nmm,
                                   "drift": nd, "isolated_checked": bool(isolated), "tlc_wall_s": round(r["wall"], 1)})
            cov["states"] += r["distinct"]
            cov["transitions"] += r["generated"]
            cov["traces_validated_against_impl"] += len(lines)
            cov["evaluations"] += n_cases
            cov["distinct_nontrivial"] += sum(1 for ln in lines if ln.get("mm") or ln["m"]["a"] != "none" or ln["e"])
            if lines and len(cov["samples"]) < 5:
                ln = [l for l in lines if l.get("mm")] or lines
                ln = ln[len(ln) // 2]
                cs = _case_of_line_static(universes[docs], mode, ln)
                cov["samples"].append({"universe": name, "calls": describe(cs, VARIANTS[ln["p"]][-1], []), "mutation": ln["m"],
                                       "flag_mismatch_between_parent_and_child": bool(ln.get("mm"))})
        cov["copy_copy_observations"] = shallow_obs
        # the antecedent is reachable: TLC printed finished copies of trees with a child whose inherited flags are not what
        # its parent derives (MC_AyCopy!C19_Witness = the `mm` field of Emit)
        nwit = sum(1 for nm in asyncs for ln in asyncs[nm][0] if ln.get("mm") and nm.startswith("hist"))
        if not nwit:
            raise tlc.TLCError("no copied tree with a child whose inherited flags differ from its parent's derivation was reached (C19_Witness)")
        cov["witness_states"] = nwit

        # ---- direction B + explanation of direction A's failing / mismatch cases: TLC on the as-is machine
        recs = [x for chunk in rec_async.get(timeout=tmo) for x in chunk]
        cap = 500 if quick else 4000
        n_failing = sum(1 for p in pending if p["bad"])
        if len(pending) > cap:
            # every copy that breaks a formula is judged; of those that agree (sent because the tree has a flag mismatch)
            # a seeded sample; of many failing copies of one kind (same universe, same formulas) a seeded sample as well
            rnd = random.Random(seed)
            groups = {}
            for p in pending:
                groups.setdefault((p["u"], tuple(p["bad"]), proto_of(p["variant"]), tuple(p["sig"])), []).append(p)
            pending, per_group = [], max(20, cap // max(1, len(groups)))
            for g in sorted(groups):
                rnd.shuffle(groups[g])
                pending.extend(groups[g][:per_group])
        # (failing copies of one universe / protocol / set of broken formulas / set of differing fields beyond the sample are
        #  represented by the sampled members of their group)
        cov["failing_copies"] = {"seen_by_direction_A": n_failing, "judged_by_tlc": sum(1 for p in pending if p["bad"])}
        allrecs = [x["rec"] for x in recs] + [p["rec"] for p in pending]
        verdicts, st = validate_traces(allrecs, ON, "trace", workers=4, timeout=tmo)
        missing = [r["tid"] for r in allrecs if r["tid"] not in verdicts]
        if missing:
            raise tlc.TLCError(f"{len(missing)} traces were not consumed by the trace specification, first tid {missing[0]}")
        cov["states"] += st["distinct"]
        cov["transitions"] += st["generated"]
        tally = {"ok": 0, "known": 0, "violation": 0, "drift": 0}
        finals = set()
        outside = 0
        for x in recs + pending:
            v = verdicts[x["tid"]]
            bad = set(x["bad"])
            # the property on the LOGGED state, as TLC evaluates it, must be what the harness saw on the real objects
            if set(v["lbad"]) != bad - {"Behaves"}:
                raise tlc.TLCError(f"trace {x['tid']}: TLC evaluates the property on the logged state to {v['lbad']}, the harness to {sorted(bad)}")
            cls, fired = classify(bad, v, ON)
            tally[cls] += 1
            if x["tid"] < 10 ** 6:
                finals.add(hashlib.sha1(json.dumps(x["rec"]["orig"], sort_keys=True).encode()).hexdigest())
                if not views_agree(x["rec"]["orig"]):
                    outside += 1
            if cls == "known":
                for s in fired:
                    slot = known_hits.setdefault(s, [0, None])
                    slot[0] += 1
                    size = len(json.dumps(x["case"]))
                    if slot[1] is None or size < slot[1][0]:
                        slot[1] = (size, x)
            elif cls == "violation":
                if len(violations) < 25:
                    info = {"broken": sorted(bad), "tlc_verdict": {k: v[k] for k in ("verdict", "vstep", "lbad", "mbad", "fired")},
                            "diff": diff_lines(x["rec"]["orig"], x["rec"]["copy"])[:30] + x["rec"].get("xdiff", []), "status": x["rec"]["st"],
                            "behaves": x.get("behaves", []),
                            "model": v.get("model")}
                    if x.get("behaves"):
                        info["ctx"] = [[b["ctx"], ctxs[b["ctx"]]] for b in x["behaves"] if b["ctx"] >= 0][:3]
                    violations.append((len(json.dumps(x["case"])), write_replay(x["case"], x["variant"], x["muts"], info)))
            elif cls == "drift":
                drift += 1
                if len(drift_notes) < 10:
                    drift_notes.append({"tid": x["tid"], "verdict": v["verdict"], "vstep": v["vstep"], "calls": describe(x["case"], x["variant"], x["muts"])[-4:]})
        violations = [p for _, p in sorted(set(violations))][:20]
        cov["configs"].append({"universe": "recorded-traces", "traces": len(recs), "from_direction_A": len(pending), "states": st["distinct"],
                               "transitions": st["generated"], "verdicts": tally, "originals_with_disagreeing_views": outside,
                               "events": sum(len(x["rec"]["ev"]) for x in recs), "mutations_applied": sum(len(x["rec"]["muts"]) for x in recs),
                               "with_insert_below_end": sum(1 for x in recs if any(e["op"] == "insert" for e in x["case"]["edits"])),
                               "tlc_wall_s": round(st["wall"], 1), "exhaustive": False})
        cov["traces_validated_against_impl"] += len(allrecs)
        cov["evaluations"] += len(recs)
        cov["distinct_nontrivial"] += len(finals)
        if recs:
            x = recs[min(3, len(recs) - 1)]
            cov["samples"].append({"universe": "recorded-traces", "calls": describe(x["case"], x["variant"], x["muts"]),
                                   "events": [e["e"] + ":" + S._path_text(e["path"]) for e in x["rec"]["ev"]][:24], "tlc": verdicts[x["tid"]]["verdict"]})
    finally:
        pool.terminate()
        pool.join()

    cov["observations"] = observations()
    known_lines = []
    cov["known_findings_hit"] = []
    for s in SWITCHES:
        if s in known_hits and s in FINDINGS:
            fid, what = FINDINGS[s]
            cnt, wit = known_hits[s]
            x = wit[1]
            known_lines.append(f"KNOWN-FINDING: property={PROP} {fid} {what} [deviation switch {s}; explains {cnt} copies whose state breaks the property]")
            cov["known_findings_hit"].append({"id": fid, "switch": s, "copies": cnt, "witness": describe(x["case"], x["variant"], x["muts"]),
                                              "broken": x["bad"], "diff": diff_lines(x["rec"]["orig"], x["rec"]["copy"])[:8], "status": x["rec"]["st"]})
    cov["drift_notes"] = drift_notes
    cov["rule"] = ("A: one behaviour = (tree reachable through Parse / FoldDocs from the universe's documents, protocol[, list edit][, mutation]) as "
                   "enumerated by TLC, distinct by construction (VIEW merges histories reaching one tree); each is replayed with copy.deepcopy or "
                   "pickle protocols 2..5 (copy.copy observed). non-trivial = the tree has a child whose inherited flags differ from what its parent "
                   "derives, or the behaviour includes an edit / mutation. B: recorded random copies, distinct by the projection of the original")
    cov["wall"] = {"tlc_and_replay_pipeline_s": round(t_tlc, 1), "total_s": round(time.time() - t0, 1)}
    summary = {"behaviours": sum(c.get("behaviours", 0) for c in cov["configs"]), "copies": cov["evaluations"], "traces": len(allrecs),
               "states": cov["states"], "tlc_s": round(t_tlc, 1)}
    return {"violations": violations, "known_lines": known_lines, "drift": drift, "level": "model_checking", "coverage": cov,
            "assumptions": ASSUMPTIONS, "summary": summary}


def _case_of_line_static(uni, mode, ln):
    return {"docs": [uni[i - 1] for i in ln["h"]], "mode": mode, "safes": [bool(x) for x in ln["s"]],
            "edits": [{"op": e["op"], "pos": e["pos"], "path": [dict(k) for k in e["path"]]} for e in ln["e"]]}
