"""Regenerates /verif/MANIFEST.json from the registry (run by hand after adding a check)."""
import json, os, sys
HERE = os.path.dirname(os.path.abspath(__file__)); sys.path.insert(0, HERE)
VERIF = os.path.dirname(HERE)
import registry

props = [json.loads(l)["id"] for l in open(os.path.join(VERIF, "properties.jsonl"))]
checks = []
for p in props:
    if p not in registry.CHECKS:
        continue
    m = registry.META[p]
    checks.append({
        "property_id": p,
        "quick_cmd": f"./check {p} --tier quick",
        "thorough_cmd": f"./check {p} --tier thorough",
        "evidence_file": f"/verif/evidence/{p}.json",
        "replay_cmd_template": f"./check {p} --replay {{path}}",
        "engine": m["engine"],
        "level_claimed": {"category": "model_checking", "text": m["text"], "design_ref": m["design_ref"]},
        "level_note": m["note"],
        "technique": m["technique"],
    })
na = [{"property_id": p, "reason": registry.NOT_APPLICABLE.get(p, "check not built yet (work in progress, see DESIGN.md section 11)")}
      for p in props if p not in registry.CHECKS]
man = {
    "version": 1,
    "setup_cmd": "./check setup",
    "hooks": {"guard": "AWESOMEYAML_VERIF",
              "enable": "no source hooks are needed: checks drive the public API of /repo's working tree (PYTHONPATH=/repo), "
                        "pass their own EvalContext subclass and use sys.settrace for schedules",
              "baseline_off_cmd": "cd /repo && /venv/bin/python -m pytest -ra -q -p no:cacheprovider --timeout=900 --continue-on-collection-errors",
              "source_commits": [], "add_only": True},
    "engines": registry.ENGINES,
    "checks": checks,
    "not_applicable": na,
    "notes": "TLA+ specification under /verif/spec (AyTree, AyParse, AyMerge, AyBuild, ...); TLC decides every claimed property; "
             "conformance in both directions (TLC behaviours replayed into the library; recorded library traces validated by TLC). "
             "fix: commits in /repo (F1..F25) and the one recorded, unrepaired finding (F26, C16: KNOWN-FINDING lines) are listed in known_findings.json.",
}
json.dump(man, open(os.path.join(VERIF, "MANIFEST.json"), "w"), indent=1)
print("claimed:", [c["property_id"] for c in checks])
