"""./check selftest - demonstrates that the trace specification is BOUND to what was recorded: a faithful trace of the
library is accepted, the same trace with one corrupted field or one missing event is not.  (Not a registered check.)"""
import copy
import json
import os
import sys

HERE = os.path.dirname(os.path.abspath(__file__))
sys.path.insert(0, HERE)
import drive  # noqa
import engine as E  # noqa
import sdoc as S  # noqa
import tlc  # noqa


def main(a):
    docs = [S.mapping([("a", S.mapping([("b", S.leaf(1))]))]), S.mapping([("a", S.mapping([("c", S.leaf(2))]))])]
    good = drive.history_trace(1, docs)
    # (2) one corrupted field: the logged outcome of the second stage loses the key the second document added
    bad_field = copy.deepcopy(good)
    bad_field["tid"] = 2
    ev = [e for e in bad_field["ev"] if e["e"] == "MergeStage"][0]
    a_node = ev["acc"]["ch"][0][1]
    a_node["ch"] = a_node["ch"][:1]
    # (3) one missing event: the record of the merge stage is removed
    bad_event = copy.deepcopy(good)
    bad_event["tid"] = 3
    bad_event["ev"] = [e for e in bad_event["ev"] if e["e"] != "MergeStage"]
    wd = tlc.workdir("selftest")
    try:
        rows, _ = E.validate("C02", [good, bad_field, bad_event], wd)
    finally:
        tlc.cleanup(wd)
    r1, r2, r3 = rows.get(1), rows.get(2), rows.get(3)
    print("faithful trace        :", r1[:3] if r1 else "not consumed")
    print("one corrupted field   :", r2[:3] if r2 else "not consumed")
    print("one missing event     :", r3[:3] if r3 else "not consumed (rejected)")
    ok = (r1 is not None and tuple(r1[:3]) == ("ok", "holds", "holds")
          and r2 is not None and r2[0] != "ok" and r2[1] == "violated"
          and (r3 is None or r3[0] != "ok"))
    print("selftest", "passed" if ok else "FAILED")
    return 0 if ok else 2
