"""Evaluates constant TLA+ expressions (e.g. universe sizes) in the context of MC_Build.
Usage: size.py 'Cardinality(C04_Old(1))' ..."""
import os, shutil, subprocess, sys
sys.path.insert(0, os.path.dirname(os.path.abspath(__file__)))
import tlc

def evaluate(exprs, timeout=300):
    wd = tlc.workdir("sz")
    try:
        for fn in os.listdir(tlc.SPEC):
            shutil.copy(os.path.join(tlc.SPEC, fn), wd)
        body = "---- MODULE Sz ----\nEXTENDS MC_Build\n" + \
               "\n".join(f'ASSUME PrintT(<<"SIZE", {i}, {e}>>)' for i, e in enumerate(exprs)) + "\n====\n"
        open(os.path.join(wd, "Sz.tla"), "w").write(body)
        cfg = tlc.cfg_text(init="Init", next_="Next", constants={"SafeFlags": "{TRUE}", "MinStages": "1", "MaxStages": "1"})
        open(os.path.join(wd, "Sz.cfg"), "w").write(cfg)
        p = subprocess.run(["java", "-cp", tlc.classpath(), "tlc2.TLC", "-metadir", os.path.join(wd, "st"),
                            "-config", os.path.join(wd, "Sz.cfg"), os.path.join(wd, "Sz.tla")],
                           cwd=wd, capture_output=True, text=True, timeout=timeout)
        res = {}
        for r in tlc.tuple_prints(p.stdout, "SIZE"):
            res[exprs[r[0]]] = r[1]
        if len(res) != len(exprs):
            print(p.stdout[-3000:])
        return res
    finally:
        tlc.cleanup(wd)

if __name__ == "__main__":
    for k, v in evaluate(sys.argv[1:]).items():
        print(v, k)
