"""Runner for the properties decided on build + evaluation (MC_Eval / EvalTrace): C09 C10 C11 (and C07's eval part)."""
import json
import multiprocessing as mp
import os
import random
import shutil
import sys
import time
from concurrent.futures import ThreadPoolExecutor

HERE = os.path.dirname(os.path.abspath(__file__))
sys.path.insert(0, HERE)
import engine as E  # noqa
import tlc  # noqa
import sdoc as S  # noqa

ASSUME = ["CPython 3.12.1 and PyYAML as installed in /venv; awesomeyaml imported from the tree in AY_REPO (default /repo)",
          "recording call targets (harness/vmod.py) stand for arbitrary side-effecting functions",
          "object identity of scalars is not compared between specification and library (CPython shares small ints / strings)",
          "TLC results are for the bounded universes named in coverage.configs"]

_UNI = None
_LIFE = False
_WITH_DOCS = False


def _init(uni, life, with_docs=False):
    global _UNI, _LIFE, _WITH_DOCS
    _UNI = uni
    _LIFE = life
    _WITH_DOCS = with_docs
    import evalobs  # noqa


def kstr(k):
    return k["t"] + ":" + (str(k["n"]) if k["t"] == "i" else k["s"])


def compact_plain(d):
    k = d["k"]
    if k == "list":
        return [compact_plain(c) for _, c in d["ch"]]
    if k == "dict":
        return {"d": [[kstr(key), compact_plain(c)] for key, c in d["ch"]]}
    if k == "scalar":
        return d["v"][0] + ":" + d["v"][1]
    return {"n": k}


def observe_docs(docs, safes, lifecycle=False):
    import drive
    import evalobs
    texts = [S.render_doc(d) for d in docs]      # a document the harness cannot render is a machinery error, not an outcome
    try:
        tree = drive.build_tree(docs, safes, texts)
    except Exception as e:  # noqa
        return None, {"status": drive.errclass(e), "data": None, "ids": [], "classes": [], "calls": [], "ev": [], "issues": [], "lifecycle": "n/a"}
    return tree, evalobs.observe(tree, lifecycle=lifecycle)


def outcome_for_compare(o):
    """the part of an observed outcome that is compared with what TLC printed (Outcome in MC_Eval.tla)"""
    st = o["status"]
    done = st == "done"
    return {"status": st,
            "data": compact_plain(o["data"]) if done else [],
            "classes": sorted(sorted([[kstr(k) for k in p] for p in g]) for g in o["classes"]) if done else [],
            "calls": [{"p": [kstr(k) for k in c[0]], "fn": c[1]} for c in o["calls"]] if done or st in ("EvalError", "UnsafeError") else [],
            "ev": [[kstr(k) for k in p] for p in o["ev"]] if done else []}


def norm_want(w):
    st = w["status"]
    done = st == "done"
    return {"status": st, "data": w["data"] if done else [],
            "classes": sorted(sorted(g) for g in w["classes"]) if done else [],
            "calls": [{"p": c["p"], "fn": c["fn"]} for c in w["calls"]] if done or st in ("EvalError", "UnsafeError") else [],
            "ev": w["ev"] if done else []}


def _replay_one(beh):
    docs = [_UNI[i - 1] for i in beh["h"]]
    tree, o = observe_docs(docs, beh["s"], lifecycle=_LIFE)
    got, want = outcome_for_compare(o), norm_want(beh["o"])
    if want["status"] in ("EvalError", "UnsafeError"):
        # on a failing evaluation only the status (and that nothing ran twice) is compared
        ok = got["status"] == want["status"]
    else:
        ok = got == want
    if ok and o["issues"]:
        ok = False
    if ok and _LIFE and o["status"] == "done" and o["lifecycle"] != "ok":
        ok = False
    if ok:
        return None
    # the very observation that disagrees is what TLC judges afterwards (not a second run of the same behaviour: a defect
    # that depends on memory layout need not show twice)
    return {"h": beh["h"], "s": beh["s"], "want": want, "got": got, "issues": o["issues"], "lifecycle": o["lifecycle"],
            "trace": _trace_of(0, docs, beh["s"], tree, o)}


def replay(uni, behs, life, with_docs=False):
    with mp.Pool(16, initializer=_init, initargs=(uni, life, with_docs)) as pool:
        res = pool.map(_replay_one, behs, chunksize=max(1, len(behs) // 128 or 1))
    return [r for r in res if r is not None]


def _record_one(args):
    tid, docs, safes = args
    tree, o = observe_docs(docs, safes, lifecycle=_LIFE)
    return _trace_of(tid, docs, safes, tree, o)


def _trace_of(tid, docs, safes, tree, o):
    import project as P
    if tree is None:
        return {"tid": tid, "skip": o["status"]}
    import copy
    t = {"tid": tid, "tree": P.project(tree), "copytree": P.project(copy.deepcopy(tree)), "status": o["status"], "data": o["data"], "ids": o["ids"], "classes": o["classes"],
         "calls": o["calls"], "ev": o["ev"], "lifecycle": o["lifecycle"], "issues": o["issues"]}
    if _WITH_DOCS:
        import drive
        t["docs"] = docs
        t["safes"] = [bool(x) for x in safes]
        t["stages"] = []
    return t


def record(hs, life, with_docs=False):
    with mp.Pool(16, initializer=_init, initargs=([], life, with_docs)) as pool:
        return pool.map(_record_one, hs, chunksize=max(1, len(hs) // 128 or 1))


def _validate_chunk(args):
    prop, chunk, wd, switches = args
    os.makedirs(wd, exist_ok=True)
    path = os.path.join(wd, "traces.ndjson")
    with open(path, "w") as f:
        for t in chunk:
            t2 = {k: v for k, v in t.items() if k != "issues"}
            f.write(json.dumps(t2) + "\n")
    cfg = tlc.cfg_text(init="TInit", next_="TNext", invariants=["Report"], switches=switches, constants={"Prop": json.dumps(prop)})
    r = tlc.run("EvalTrace", cfg, wd, env={"TRACE_FILE": path}, workers=4, timeout=1200, heap="3g")
    if r["violated"]:
        raise E.MachineryError("EvalTrace reported a violation of its own: %s\n%s" % (r["violated"], r["out"][-2000:]))
    rows = {row[0]: tuple(row[1:]) for row in tlc.tuple_prints(r["out"], "TRACE")}
    return rows, r["distinct"], r["generated"]


def validate(prop, traces, wd, switches=()):
    chunks = [traces[i:i + 300] for i in range(0, len(traces), 300)] or [[]]
    jobs = [(prop, c, os.path.join(wd, f"tv_{i}"), switches) for i, c in enumerate(chunks)]
    rows, st, tr = {}, 0, 0
    with ThreadPoolExecutor(min(4, len(jobs))) as ex:
        for r, a, b in ex.map(_validate_chunk, jobs):
            rows.update(r)
            st += a
            tr += b
    return rows, st, tr


def write_replay(prop, docs, safes, info):
    return E.write_replay(prop, docs, safes, info)


def run(spec, prop, tier, seed, replay_path, keep):
    wd = tlc.workdir(prop)
    try:
        return _run(spec, prop, tier, seed, replay_path, wd)
    finally:
        if not keep:
            tlc.cleanup(wd)


def _run(spec, prop, tier, seed, replay_path, wd):
    import main as M
    life = bool(spec.get("lifecycle"))
    cov = {"configs": [], "states": 0, "transitions": 0, "traces_validated_against_impl": 0, "samples": [], "mutations": [],
           "liveness": [], "exhaustive": True}
    violations, known_lines, drift = [], [], 0
    summary = {}
    if spec.get("rec_files"):
        # the files `!rec` nodes may name: real files in the directory the library runs in (sources are given as text, so the
        # names are looked up in the current directory) and, for TLC, the same documents as JSON (spec/AyFiles.tla)
        recdir = os.path.join(wd, "recfiles")
        os.makedirs(recdir, exist_ok=True)
        for name, sd in spec["rec_files"].items():
            with open(os.path.join(recdir, name), "w") as f:
                f.write(S.render_doc(sd))
        with open(os.path.join(recdir, "rec_files.json"), "w") as f:
            json.dump([{"name": n, "doc": sd} for n, sd in sorted(spec["rec_files"].items())], f)
        os.environ["REC_FILES"] = os.path.join(recdir, "rec_files.json")
        os.chdir(recdir)
    if replay_path:
        body = json.load(open(replay_path))
        _init([], life, bool(spec.get("with_docs")))
        t = _record_one((1, body["docs"], body["safes"]))
        for y in body["yaml"]:
            print("---\n" + y, end="")
        if "skip" in t:
            print("build failed:", t["skip"])
            return {"violations": [], "level": "model_checking", "coverage": cov, "assumptions": ASSUME}
        rows, _, _ = validate(prop, [t], wd)
        row = rows.get(1)
        print("replay: (model-vs-library first disagreement, formula on library outcome, formula on model outcome) =", row[:3] if row else "not consumed")
        print("  library:", json.dumps(outcome_for_compare(t)), "issues:", t["issues"], "lifecycle:", t["lifecycle"])
        ok = row is not None and row[1] != "violated"
        return {"violations": [] if ok else [replay_path], "level": "model_checking", "coverage": cov, "assumptions": ASSUME}

    shutil.rmtree(os.path.join(E.VERIF, "replays", prop), ignore_errors=True)
    # ---- A: exhaustive + replay -------------------------------------------
    bad_hist = []
    replayed = 0
    for entry in spec["exh"][tier]:
        docs_name, smin, smax = entry[:3]
        drange = entry[3] if len(entry) > 3 else "WholeRange"
        sub = os.path.join(wd, "exh_" + docs_name)
        os.makedirs(sub)
        ex = E.exhaustive(prop, docs_name, smin, smax, spec["invariants"], sub, module="MC_Eval", init="MInit", next_="MNext",
                          extra_consts={"MaxEvals": str(spec.get("max_evals", 1))}, doc_range=drange, safes=spec.get("safes", "{TRUE}"),
                          timeout=7200 if tier == "thorough" else 1500)
        if ex["violated"]:
            cex = ex["cex"]
            shown = ("\n".join("---\n" + S.render_doc(d) for d in cex["docs"]) + f"\nstatus={cex.get('status')}") if cex else ex["raw"]["out"][-3000:]
            raise E.MachineryError(f"the specification itself violates {ex['violated']} on {docs_name}\n" + shown)
        uni, behs = ex["universe"], ex["behaviours"]
        t0 = time.time()
        mism = replay(uni, behs, life, bool(spec.get("with_docs")))
        if os.environ.get("VERIF_DEBUG"):
            from collections import Counter
            print("DEBUG mismatches", len(mism), Counter((m["want"]["status"], m["got"]["status"]) for m in mism))
            for m in mism[:int(os.environ["VERIF_DEBUG"])]:
                print("DEBUG", [S.render_doc(uni[i - 1]) for i in m["h"]], m["s"], "want", m["want"]["status"], "got", m["got"]["status"], m["issues"])
        replayed += len(behs)
        cov["configs"].append({"universe": docs_name, "documents": len(uni), "stages": [smin, smax], "states": ex["states"],
                               "transitions": ex["transitions"], "behaviours": len(behs), "tlc_wall_s": round(ex["wall"], 1),
                               "replay_wall_s": round(time.time() - t0, 1), "replay_disagreements": len(mism)})
        cov["states"] += ex["states"]
        cov["transitions"] += ex["transitions"]
        if behs and len(cov["samples"]) < 3:
            b = behs[len(behs) // 3]
            cov["samples"].append({"yaml": [S.render_doc(uni[i - 1]) for i in b["h"]], "expected_outcome": b["o"]})
        for m in mism:
            bad_hist.append(([uni[i - 1] for i in m["h"]], m["s"], m))
    summary["behaviours_replayed"] = replayed
    summary["replay_disagreements"] = len(bad_hist)
    cov["traces_validated_against_impl"] += replayed

    # ---- liveness ----------------------------------------------------------
    for entry in spec.get("liveness", {}).get(tier, []):
        docs_name, smin, smax = entry[:3]
        sub = os.path.join(wd, "live_" + docs_name)
        os.makedirs(sub)
        ex = E.exhaustive(prop, docs_name, smin, smax, [], sub, module="MC_Eval", init=None, next_=None, spec="MSpec",
                          properties=["Terminates"], emit=False, extra_consts={"MaxEvals": "1"})
        cov["liveness"].append({"universe": docs_name, "property": "Terminates", "states": ex["states"], "violated": ex["violated"],
                                "tlc_wall_s": round(ex["wall"], 1)})
        cov["states"] += ex["states"]
        cov["transitions"] += ex["transitions"]
        if ex["violated"]:
            raise E.MachineryError(f"the specification violates liveness {ex['violated']} on {docs_name}")

    # ---- B: recorded evaluations validated by TLC ---------------------------
    rng = random.Random(seed)
    hs = []
    info = {}
    for tid in range(1, spec["random"][tier] + 1):
        docs, safes = spec["gen"](rng, spec.get("max_stages", 2))
        hs.append((tid, docs, safes))
        info[tid] = (docs, safes, None)
    traces = [t for t in record(hs, life, bool(spec.get("with_docs")))]
    tid = 1000000
    for docs, safes, m in bad_hist:
        t = dict(m.pop("trace"))
        t["tid"] = tid
        traces.append(t)
        info[tid] = (docs, safes, m)
        tid += 1
    usable = [t for t in traces if "skip" not in t]
    rows, st, tr = validate(prop, usable, wd)
    cov["states"] += st
    cov["transitions"] += tr
    missing = [t["tid"] for t in usable if t["tid"] not in rows]
    if missing:
        raise E.MachineryError(f"{len(missing)} recorded evaluations were not consumed by the trace specification, first tid {missing[0]}")
    from collections import Counter
    pvs, cmps = Counter(), Counter()
    bad = []
    nontrivial = set()
    for t in usable:
        cmp_, pv, mv = rows[t["tid"]][:3]
        pvs[pv] += 1
        cmps[cmp_] += 1
        docs, safes, m = info[t["tid"]]
        if spec["nontrivial"](docs):
            nontrivial.add(E.sha(docs))
        if mv == "violated" and pv != "violated":      # (both violated: the specification mirrors a defect of the library - reported below)
            path = write_replay(prop, docs, safes, {"note": "MODEL violates the formula"})
            raise E.MachineryError(f"the specification violates the property formula on a recorded evaluation (replay={path})")
        structural = bool(t["issues"]) and spec.get("issues_matter", False)
        lifebad = life and t["status"] == "done" and t["lifecycle"] != "ok"
        if pv == "violated" or structural or lifebad or t["status"] in ("Hang",) or t["status"].startswith("Crash"):
            bad.append(t["tid"])
        elif cmp_ != "ok":
            drift += 1
    cov["trace_validation"] = {"recorded": len(traces), "validated": len(usable), "build_failed": len(traces) - len(usable),
                               "property_verdicts": dict(pvs), "model_vs_library": dict(cmps)}
    cov["traces_validated_against_impl"] += len(usable)
    cov["evaluations"] = replayed + len(usable)
    cov["distinct_nontrivial"] = len(nontrivial)
    cov["rule"] = spec["rule"]
    summary["trace_verdicts"] = dict(pvs)
    summary["model_vs_library"] = dict(cmps)
    if usable and len(cov["samples"]) < 5:
        t = usable[min(5, len(usable) - 1)]
        cov["samples"].append({"recorded_yaml": [S.render_doc(d) for d in info[t["tid"]][0]], "library_outcome": outcome_for_compare(t),
                               "verdict": list(rows[t["tid"]][:3])})
    bad.sort(key=lambda x: len(json.dumps(info[x][0])))
    seen = set()
    by_tid = {t["tid"]: t for t in usable}
    for tid_ in bad:
        docs, safes, m = info[tid_]
        t = by_tid[tid_]
        path = write_replay(prop, docs, safes, {"verdict": list(rows[tid_][:3]), "library": outcome_for_compare(t), "issues": t["issues"],
                                                "lifecycle": t["lifecycle"], "expected_by_model": (m or {}).get("want")})
        if path not in seen:
            seen.add(path)
            violations.append(path)
    violations = violations[:20]

    # ---- mutation cfgs --------------------------------------------------------
    for mu in spec.get("mutations", []):
        sub = os.path.join(wd, "mut_" + (mu.get("switch") or mu.get("mutation")) + "_" + mu["expect"][0])
        os.makedirs(sub)
        live = mu["expect"] == ["Terminates"]
        ex = E.exhaustive(prop, mu["docs"], mu["stages"][0], mu["stages"][1], [] if live else mu["expect"], sub, module="MC_Eval",
                          init=None if live else "MInit", next_=None if live else "MNext", spec="MSpec" if live else None,
                          properties=["Terminates"] if live else (), switches=[mu["switch"]] if mu.get("switch") else (),
                          mutation=mu.get("mutation"), emit=False, extra_consts={"MaxEvals": str(mu.get("max_evals", 1))},
                          doc_range=mu.get("range", "WholeRange"), timeout=600, safes=spec.get("safes", "{TRUE}"))
        refuted = bool(ex["violated"])
        cov["mutations"].append({"mutation": mu.get("switch") or mu.get("mutation"), "universe": mu["docs"], "expected_to_fail": mu["expect"],
                                 "refuted_by_tlc": refuted, "violated": ex["violated"], "tlc_wall_s": round(ex["wall"], 1)})
        if not refuted:
            raise E.MachineryError(f"mutation {mu} was NOT refuted by TLC")
    cov["drift_traces"] = drift
    return {"violations": violations, "known_lines": known_lines, "drift": drift, "level": "model_checking", "coverage": cov,
            "assumptions": ASSUME, "summary": summary}
