"""Recording call targets for the checks (imported by the library through `!call:vmod.rec`)."""
CALLS = []
STACK = []     # paths of the function nodes being evaluated, innermost last (pushed by the harness' EvalContext)


def _who():
    return list(STACK[-1]) if STACK else None


class Obj(object):
    """what a recording target returns: a fresh, mutable, identity-bearing object"""
    def __init__(self, n):
        self.n = n

    def __repr__(self):
        return "Obj#%d" % self.n


def rec(*args, **kwargs):
    CALLS.append(("rec", args, tuple(sorted(kwargs.items(), key=lambda kv: str(kv[0]))), _who()))
    return Obj(len(CALLS))


def rec2(*args, **kwargs):
    CALLS.append(("rec2", args, tuple(sorted(kwargs.items(), key=lambda kv: str(kv[0]))), _who()))
    return Obj(len(CALLS))


def recnone(*args, **kwargs):
    CALLS.append(("recnone", args, tuple(sorted(kwargs.items(), key=lambda kv: str(kv[0]))), _who()))
    return None


def reclist(*args, **kwargs):
    CALLS.append(("reclist", args, tuple(sorted(kwargs.items(), key=lambda kv: str(kv[0]))), _who()))
    return []
