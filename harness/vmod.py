"""Recording call targets for the checks (imported by the library through `!call:vmod.rec`)."""
CALLS = []
STACK = []     # paths of the function nodes being evaluated, innermost last (pushed by the harness' EvalContext)


def _who():
    return list(STACK[-1]) if STACK else None


class Obj(object):
    """what a recording target returns: a fresh, mutable, identity-bearing object"""
    def __init__(self, n):
        self.n = n

    def __repr__(self):
        return "Obj#%d" % self.n


def rec(*args, **kwargs):
    CALLS.append(("vmod.rec", args, tuple(sorted(kwargs.items(), key=lambda kv: str(kv[0]))), _who()))
    return Obj(len(CALLS))


def rec2(*args, **kwargs):
    CALLS.append(("vmod.rec2", args, tuple(sorted(kwargs.items(), key=lambda kv: str(kv[0]))), _who()))
    return Obj(len(CALLS))


def recnone(*args, **kwargs):
    CALLS.append(("vmod.recnone", args, tuple(sorted(kwargs.items(), key=lambda kv: str(kv[0]))), _who()))
    return None


def reclist(*args, **kwargs):
    CALLS.append(("vmod.reclist", args, tuple(sorted(kwargs.items(), key=lambda kv: str(kv[0]))), _who()))
    return []


def recbuild(*args, **kwargs):
    """a factory that loads an auxiliary config of its own while the outer config is being evaluated (a nested,
    completely independent build with its own default evaluation context), then records like rec"""
    from awesomeyaml.builder import Builder
    from awesomeyaml.config import Config
    b = Builder()
    b.add_source("aux: !call:dict {k: !xref v}\nv: [1, 2]\nw: !xref aux\n", raw_yaml=True)
    inner = Config(b.build())
    assert inner.w is inner.aux and inner.aux["k"] is inner.v
    CALLS.append(("vmod.recbuild", args, tuple(sorted(kwargs.items(), key=lambda kv: str(kv[0]))), _who()))
    return Obj(len(CALLS))


_MADE = {}


def __getattr__(name):
    """vmod.r1a, vmod.r2s, ...: one recording target per name (provenance markers of the C07 universes)"""
    if name.startswith("r") and name[1:2].isdigit():
        if name not in _MADE:
            def f(*args, __n="vmod." + name, **kwargs):
                CALLS.append((__n, args, tuple(sorted(kwargs.items(), key=lambda kv: str(kv[0]))), _who()))
                return Obj(len(CALLS))
            f.__name__ = name
            _MADE[name] = f
        return _MADE[name]
    raise AttributeError(name)
