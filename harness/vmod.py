"""Recording call targets for the checks (imported by the library through `!call:vmod.rec`)."""
CALLS = []


def rec(*args, **kwargs):
    CALLS.append(("rec", args, tuple(sorted(kwargs.items(), key=lambda kv: str(kv[0])))))
    return ("rec", len(CALLS))


def rec2(*args, **kwargs):
    CALLS.append(("rec2", args, tuple(sorted(kwargs.items(), key=lambda kv: str(kv[0])))))
    return ("rec2", len(CALLS))
