#!/bin/sh
# usage: mutant.sh <patch> <check> [tier]  - runs a check against a scratch worktree with the patch applied
WT=/tmp/wt/lead
git -C $WT checkout -q --detach $(git -C /repo rev-parse HEAD) 2>/dev/null
git -C $WT checkout -- . && git -C $WT apply "$1" || { echo "PATCH DOES NOT APPLY"; exit 3; }
cd /verif && AY_REPO=$WT ./check "$2" --tier "${3:-quick}" 2>&1 | tail -2 | cut -c1-400
git -C $WT checkout -- .
