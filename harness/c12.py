"""C12 - !eval and f-strings compute what Python computes, with config names visible.

TLC decides (spec/AyEvalNS.tla, MC_EvalNS.tla): name resolution order, exec/eval split, error wrapping,
independence from the build history (two-history formulation) for every program of the template table x
source assignment x sequence of builds.  That eval.py's bytecode rewriting preserves CPython's semantics of
a skeleton is decided by differential execution of every TLC-enumerated history: the specification supplies
the resolved value of every name, the skeleton runs natively with those values as plain globals and through
Config.build, each history in a freshly forked process (a segfault is the outcome Crash of that build).
Direction B: random longer histories over generated programs are recorded from the library and validated by
TLC (spec/Trace_EvalNS.tla)."""
import hashlib
import json
import os
import random
import re
import subprocess
import sys
import threading
import time

HERE = os.path.dirname(os.path.abspath(__file__))
if HERE not in sys.path:
    sys.path.insert(0, HERE)
import tlc
import evalns as E

PROP = "C12"
VERIF = os.path.dirname(HERE)
REPO = os.environ.get("AY_REPO", "/repo")
PY = sys.executable
SWITCHES = ["ModuleCacheKeepsCtx", "BytecodePatch312", "NoFilenameCompile", "BuiltinBeforeCfg", "SymbolsLeak"]
KNOWN = {  # deviation switch -> (finding id, call site, what fails)
    "BytecodePatch312": ("F9a", "awesomeyaml/nodes/eval.py EvalNode._patch_access_to_globals",
                         "bytecode rewriting assumes pre-3.11 encodings (LOAD_ATTR operand unshifted, 1-byte operands, jump anchors, "
                         "exception table copied): code objects that read a global name whose co_names index is not 0 (two or more "
                         "names), or that jump / handle exceptions around a rewritten load, or need EXTENDED_ARG, crash the "
                         "interpreter or mis-evaluate"),
    "NoFilenameCompile": ("F9b", "awesomeyaml/nodes/eval.py EvalNode.ayns.on_evaluate_impl compile(.., self._source_file, ..)",
                          "!eval / f-string in a source without file name fails: compile() rejects filename None (TypeError wrapped in EvalError)"),
    "ModuleCacheKeepsCtx": ("F9c", "awesomeyaml/nodes/eval.py EvalNode.ayns.on_evaluate_impl sys.modules lookup",
                            "multi-line code is cached in sys.modules by path+hash together with the first build's symbols / ctx: a later "
                            "build of the same code in the same process resolves names to the earlier build's symbols"),
}
MUTATION_TARGET = {"ModuleCacheKeepsCtx": "HistoryFree", "SymbolsLeak": "HistoryFree", "BuiltinBeforeCfg": "ResolveOrder",
                   "BytecodePatch312": "NoCrash", "NoFilenameCompile": "UserError"}
INVARIANTS = ["ResolveOrder", "ExecEvalSplit", "UserError", "NoCrash", "ComputesPython", "HistoryFree"]

HIST_QUICK = ["expr", "assign", "fstr", "ayns_cfg"]
HIST_ALL = [t["id"] for t in E.TEMPLATES if t["hist"]]
PAIR_HIST = ["assign_pair", "expr_pair"]


# ------------------------------------------------------------------------------------------------
# TLC
def cfg_text(consts, invariants, spec="Spec"):
    lines = ["SPECIFICATION " + spec, "CONSTANTS"]
    for k, v in consts.items():
        lines.append("  %s = %s" % (k, "TRUE" if v is True else "FALSE" if v is False else v))
    for i in invariants:
        lines.append("INVARIANT " + i)
    lines.append("CHECK_DEADLOCK FALSE")
    return "\n".join(lines) + "\n"


def known_switches():
    """deviation switches of C12 that are currently `known` findings (known_findings.json is maintained by the lead;
    while it has no C12 entry the three deviations reproduced on the pinned tree are assumed)"""
    if "C12_KNOWN_SWITCHES" in os.environ:          # for experiments: "" = none
        return sorted(x for x in os.environ["C12_KNOWN_SWITCHES"].split(",") if x in KNOWN)
    try:
        fs = json.load(open(os.path.join(VERIF, "known_findings.json")))["findings"]
    except Exception:
        fs = []
    mine = [f for f in fs if PROP in f.get("properties", []) and any(d in KNOWN for d in str(f.get("deviation", "")).replace(",", " ").split())]
    if not mine:
        return sorted(KNOWN)
    return sorted({d for f in mine if f.get("kind") == "known" for d in str(f["deviation"]).replace(",", " ").split() if d in KNOWN})


def mc_consts(switch=None, **kw):
    c = {s: (s == switch) for s in SWITCHES}
    ks = known_switches()
    c.update({"AsIsCache": "ModuleCacheKeepsCtx" in ks, "AsIsPatch": "BytecodePatch312" in ks, "AsIsNoFile": "NoFilenameCompile" in ks})
    c.update({"MaxBuilds": 1, "Vers": 1, "FilePerBuild": True, "TwoHistories": True, "WithAsIs": True, "EmitJson": True})
    c.update(kw)
    return c


def run_mc(name, progs, consts, invariants, wd_root, timeout=900):
    wd = os.path.join(wd_root, name)
    os.makedirs(wd, exist_ok=True)
    pf = os.path.join(wd, "progs.json")
    with open(pf, "w") as f:
        json.dump({"progs": progs}, f)
    res = tlc.run("MC_EvalNS", cfg_text(consts, invariants), wd, env={"C12_PROGS": pf}, timeout=timeout)
    res["name"] = name
    return res


# ------------------------------------------------------------------------------------------------
# the pool of forking servers (harness/evalns.py --serve), one sub-process per core
class Pool:
    def __init__(self, n=16):
        env = dict(os.environ, AY_REPO=REPO, PYTHONHASHSEED="0")
        self.procs = [subprocess.Popen([PY, os.path.join(HERE, "evalns.py"), "--serve"], stdin=subprocess.PIPE, stdout=subprocess.PIPE,
                                       stderr=subprocess.DEVNULL, env=env, text=True, bufsize=1) for _ in range(n)]

    def run(self, jobs):
        """jobs: list of dicts with unique 'id' -> {id: answer}"""
        out = {}
        chunks = [jobs[i::len(self.procs)] for i in range(len(self.procs))]
        errs = []

        def work(p, chunk):
            try:
                for j in chunk:
                    p.stdin.write(json.dumps(j) + "\n")
                    p.stdin.flush()
                    line = p.stdout.readline()
                    if not line:
                        raise RuntimeError("evalns server died")
                    a = json.loads(line)
                    out[a["id"]] = a
            except Exception as e:  # noqa
                errs.append(e)
        ths = [threading.Thread(target=work, args=(p, c)) for p, c in zip(self.procs, chunks) if c]
        for t in ths:
            t.start()
        for t in ths:
            t.join()
        if errs:
            raise RuntimeError("differential runner failed: %r" % errs[0])
        return out

    def close(self):
        for p in self.procs:
            try:
                p.stdin.close()
            except Exception:
                pass
        for p in self.procs:
            try:
                p.wait(timeout=5)
            except Exception:
                p.kill()


# ------------------------------------------------------------------------------------------------
# from specification-level histories to concrete builds
def table(x):
    """TLC prints an empty function as []"""
    return dict(x) if isinstance(x, dict) else {}


def globals_from(desc, res):
    """plain globals of the native run: the names the specification resolved to a symbol / config entry"""
    g = {}
    for name, src, ver, via in res:
        cn = E.concrete_name(desc, name)
        if via == "ayns":
            g.setdefault("ayns.cfg", {})[cn] = E.value_of(src, ver, cn)
        elif src in ("sym", "cfg"):
            g[cn] = E.value_of(src, ver, cn)
    return g


def concrete_builds(desc, tmpl, builds, hid):
    """desc: program descriptor (abstract names); builds: the records TLC printed"""
    own = frozenset(x[1:] for x in desc["own"])
    bn = frozenset(x[1:] for x in desc["bn"])
    node = E.render_node(tmpl, own, bn)
    text = E.node_text(tmpl, own, bn)
    lay = int(hashlib.md5(hid.encode()).hexdigest(), 16)
    out = []
    for k, b in enumerate(builds):
        cfg = {E.concrete_name(desc, n): v for n, v in table(b["cfg"]).items()}
        syms = {E.concrete_name(desc, n): v for n, v in table(b["syms"]).items()}
        cb = {"node": node, "text": text, "cfg": cfg, "syms": syms, "file": bool(b["file"]),
              "layout": (lay >> (2 * k)) % 4, "ctx": "none" if (lay >> 7 + k) % 2 and not syms else "arg",
              "globals": globals_from(desc, b["want"]["res"])}
        if b["asis"]["kind"] == "value" and b["asis"]["res"] != b["want"]["res"]:
            cb["globals_asis"] = globals_from(desc, b["asis"]["res"])
        out.append(cb)
    return out


def same(i, n):
    if i is None or n is None or i.get("kind") != n.get("kind"):
        return False
    if i["kind"] == "value":
        return i["value"] == n["value"]
    if i["kind"] == "EvalError":
        return i.get("cause") == n.get("cause")
    return False


def spec_agrees_native(desc, w, n):
    """the specification's declarative outcome and the native run must tell the same story (binding of the descriptor)"""
    if w["kind"] != n["kind"]:
        return False
    if w["kind"] == "EvalError":
        if w["cause"] != n["cause"]["type"]:
            return False
        if w["cause"] == "NameError" and [E.concrete_name(desc, w["arg"])] != n["cause"]["args"]:
            return False
    return True


def asis_explains(s, i, nat_asis, nat):
    """does the as-is expectation of the specification (known deviations on) describe what the library did?"""
    if s["kind"] == "unspecified":
        return True
    if s["kind"] == "EvalError":
        if i.get("kind") != "EvalError" or not i.get("cause"):
            return False
        if i["cause"]["type"] != s["cause"]:
            return False
        if s["arg"] == "compile":      # eval.py:116: compile(.., None, ..)
            return "expected str, bytes or os.PathLike" in json.dumps(i["cause"]["args"])
        return True
    if s["kind"] == "value":
        return same(i, nat_asis if nat_asis is not None else nat)
    return False


def judge_history(desc, builds, cbs, ans, stats):
    """-> list of findings: (kind, k, detail) with kind in violation / known / machinery"""
    res = []
    impl, nat = ans.get("impl", []), ans.get("globals", [])
    nat_asis = ans.get("globals_asis", [])
    for k, b in enumerate(builds):
        if k >= len(impl):
            break
        i, n = impl[k], nat[k]
        w, s = b["want"], b["asis"]
        if not spec_agrees_native(desc, w, n):
            res.append(("machinery", k, {"want": w, "native": n}))
            break
        stats["builds"] += 1
        na = nat_asis[k] if k < len(nat_asis) and "globals_asis" in cbs[k] else None
        if same(i, n):
            stats["conform"] += 1
            if s["kind"] != "unspecified" and not asis_explains(s, i, na, n):
                stats["better_than_asis"] += 1
                stats.setdefault("drift_samples", []).append({"what": "conforms although the as-is model predicts otherwise", "text": cbs[k]["text"], "k": k, "asis": s, "impl": i})
            if s["kind"] != "unspecified" and i.get("modules") != b["modules"]:
                stats["drift_state"] += 1
                stats.setdefault("drift_samples", []).append({"what": "sys.modules entries", "text": cbs[k]["text"], "k": k, "model": b["modules"], "impl": i.get("modules")})
        else:
            fired = sorted(b["fired"])
            if fired and asis_explains(s, i, na, n):
                res.append(("known", k, {"fired": fired, "impl": i, "native": n}))
            else:
                res.append(("violation", k, {"impl": i, "native": n, "want": w, "asis": s, "fired": fired}))
        if i.get("kind") in ("Crash", "Hang"):
            break
    return res


def nontrivial(builds):
    """a history is non-trivial when some build resolves a name that has two or more candidate sources, or when two
    consecutive builds differ in config / symbols (so that a history-dependent implementation could show)"""
    for k, b in enumerate(builds):
        c, s = table(b["cfg"]), table(b["syms"])
        if set(c) & set(s):
            return True
        if k and (table(builds[k - 1]["cfg"]) != c or table(builds[k - 1]["syms"]) != s):
            return True
    return False


def write_replay(rec):
    d = os.path.join(VERIF, "replays", PROP)
    os.makedirs(d, exist_ok=True)
    sha = hashlib.sha1(json.dumps(rec, sort_keys=True).encode()).hexdigest()[:16]
    p = os.path.join(d, sha + ".json")
    with open(p, "w") as f:
        json.dump(rec, f, indent=1)
    return p


# ------------------------------------------------------------------------------------------------
# direction B
_LEAF = re.compile(r"(cfg|sym)(\d+):(\w+)|(own):(\w+)|<built-in function (\w+)>")


def seen_of(value, acc):
    if isinstance(value, str):
        for m in _LEAF.finditer(value):
            if m.group(1):
                acc.add((m.group(3), m.group(1), int(m.group(2))))
            elif m.group(4):
                acc.add((m.group(5), "own", 0))
            else:
                acc.add((m.group(6), "builtin", 0))
    elif isinstance(value, list):
        for x in value:
            seen_of(x, acc)
    elif isinstance(value, dict):
        if "builtin" in value:
            acc.add((value["builtin"], "builtin", 0))
        for x in value.get("dict", []):
            seen_of(x, acc)
    return acc


def observation(i):
    kind = i.get("kind")
    obs = {"kind": kind, "cause": "", "arg": "", "seen": [], "modules": int(i.get("modules", 0)), "defsyms": list(i.get("defsyms", []))}
    if kind == "EvalError" and i.get("cause"):
        obs["cause"] = i["cause"]["type"]
        if obs["cause"] == "NameError" and i["cause"]["args"]:
            obs["arg"] = str(i["cause"]["args"][0])
    elif kind == "value":
        obs["seen"] = [list(t) for t in sorted(seen_of(i["value"], set()))]
    return obs


def gen_traces(seed, n):
    """random histories: 3-6 builds, a pool of 1-3 programs per history (templates and generated ones), versions 1-3"""
    rng = random.Random(seed)
    traces = []
    gid = 0
    for tid in range(n):
        pool = []
        safe_only = rng.random() < 0.6
        for _ in range(rng.randint(1, 3)):
            for _try in range(20):
                if rng.random() < 0.5:
                    t = rng.choice(E.TEMPLATES)
                    if t["id"].startswith("extended") and rng.random() < 0.9:
                        continue
                else:
                    gid += 1
                    t = E.gen_template(rng, gid)
                own, bn = rng.choice(E.programs(t))
                try:
                    d = E.describe(t, own, bn, concrete=True)
                except Exception:
                    continue
                if safe_only and not patch_safe(d):
                    continue
                # eval.py:90-91: the module key is the node path + md5 of the code: a recorded program IS its text
                d["id"] = "text:" + hashlib.md5(E.node_text(t, own, bn).encode()).hexdigest()[:12]
                pool.append((t, own, bn, d))
                break
        if not pool:
            continue
        names = sorted({n_ for _, _, _, d in pool for n_ in d["slots"]})
        builds = []
        for _ in range(rng.randint(3, 6)):
            t, own, bn, d = rng.choice(pool)
            cfg = {n_: rng.randint(1, 3) for n_ in names if rng.random() < 0.5}
            syms = {n_: rng.randint(1, 3) for n_ in names if rng.random() < 0.35}
            if builds and rng.random() < 0.25:
                cfg, syms = dict(builds[-1]["cfg"]), dict(builds[-1]["syms"])
            builds.append({"prog": d, "cfg": cfg, "syms": syms, "file": rng.random() < 0.88,
                           "node": E.render_node(t, own, bn), "text": E.node_text(t, own, bn),
                           "layout": rng.randint(0, 3), "ctx": "none" if not syms and rng.random() < 0.5 else "arg"})
        traces.append({"tid": tid, "builds": builds})
    return traces


def patch_safe(d):
    """mirror of PatchSafe in AyEvalNS.tla (only used to BIAS the random generator towards observable histories)"""
    for c in d["cos"]:
        if c["ldIdx"] and (max(c["ldIdx"]) > 0 or c["ext"] or c["jmp"] or c["exc"] or c["nnames"] + 1 > (127 if c["glob"] else 255)):
            return False
    return True


def validate_traces(traces, wd_root, switches, name="traces"):
    wd = os.path.join(wd_root, name)
    os.makedirs(wd, exist_ok=True)
    tf = os.path.join(wd, "traces.ndjson")
    pf = os.path.join(wd, "progs.json")
    index, progs = {}, []
    for t in traces:
        for b in t["builds"]:
            if b["prog"]["id"] not in index:        # the id of a recorded program carries the hash of its text
                progs.append(b["prog"])
                index[b["prog"]["id"]] = len(progs)
    with open(pf, "w") as f:
        json.dump({"progs": progs}, f)
    with open(tf, "w") as f:
        for t in traces:
            f.write(json.dumps({"tid": t["tid"], "builds": [{"prog": index[b["prog"]["id"]], "cfg": b["cfg"], "syms": b["syms"], "file": b["file"],
                                                             "obs": b["obs"]} for b in t["builds"]]}) + "\n")
    consts = {s: (s in switches) for s in SWITCHES}
    res = tlc.run("Trace_EvalNS", cfg_text(consts, ["Verdict"]), wd, env={"C12_TRACES": tf, "C12_PROGS": pf}, timeout=900)
    verdicts = {v["c12t"]: v["res"] for v in tlc.json_prints(res["out"], "c12t")}
    return res, verdicts


def direction_b(pool, seed, n, wd_root, stats, found, known_hits, samples):
    traces = gen_traces(seed, n)
    jobs = [{"id": "t%d" % t["tid"], "builds": t["builds"], "natives": []} for t in traces]   # the library only
    ans = pool.run(jobs)
    for t in traces:
        impl = ans["t%d" % t["tid"]]["impl"]
        t["impl"] = impl
        t["builds"] = t["builds"][:len(impl)]
        for b, i in zip(t["builds"], impl):
            b["obs"] = observation(i)
    traces = [t for t in traces if t["builds"]]
    res, verdicts = validate_traces(traces, wd_root, known_switches())
    missing = [t["tid"] for t in traces if t["tid"] not in verdicts]
    if missing:
        raise tlc.TLCError("no verdict for %d recorded traces (e.g. tid %s)" % (len(missing), missing[:3]))
    # native reference runs with the values the specification resolved
    njobs = []
    for t in traces:
        nb = []
        for b, r in zip(t["builds"], verdicts[t["tid"]]):
            d = b["prog"]
            x = {"text": b["text"], "globals": globals_from(d, r["want"]["res"])}
            if r["asis"]["kind"] == "value" and r["asis"]["res"] != r["want"]["res"]:
                x["globals_asis"] = globals_from(d, r["asis"]["res"])
            nb.append(x)
        njobs.append({"id": "n%d" % t["tid"], "impl": False, "builds": nb, "natives": ["globals", "globals_asis"]})
    nans = pool.run(njobs)
    accepted = 0
    for t in traces:
        vs = verdicts[t["tid"]]
        na = nans["n%d" % t["tid"]]
        ok = True
        for k, r in enumerate(vs):
            b, i = t["builds"][k], t["impl"][k]
            n = na["globals"][k]
            has_asis = r["asis"]["kind"] == "value" and r["asis"]["res"] != r["want"]["res"]
            nas = na["globals_asis"][k] if has_asis else None
            stats["b_builds"] += 1
            if not spec_agrees_native(b["prog"], r["want"], n):
                raise tlc.TLCError("descriptor of %s does not describe its native run: %s vs %s" % (b["prog"]["id"], r["want"], n))
            prop_ok = r["prop"] == "" and same(i, n)
            model_ok = r["model"] == "" and (r["asis"]["kind"] != "value" or same(i, nas if has_asis else n))
            if prop_ok:
                if not model_ok:
                    stats["better_than_asis"] += 1
                if not (r["modules"] and r["defsyms"]) and r["asis"]["kind"] != "unspecified":
                    stats["drift_state"] += 1
                    stats.setdefault("drift_samples", []).append({"what": "process state (sys.modules entries / default symbols)", "k": k,
                                                                  "texts": [bb["text"] for bb in t["builds"][:k + 1]], "observed": [bb["obs"] for bb in t["builds"][:k + 1]]})
            else:
                fired = sorted(r["fired"])
                if model_ok and fired:
                    known_hits.setdefault(tuple(fired), []).append({"direction": "B", "tid": t["tid"], "k": k, "text": b["text"], "impl": i})
                else:
                    ok = False
                    found.append({"prop": PROP, "direction": "B", "k": k, "field": r["prop"] or "value",
                                  "builds": [{kk: bb[kk] for kk in ("prog", "cfg", "syms", "file", "node", "text", "layout", "ctx")} for bb in t["builds"][:k + 1]],
                                  "impl": i, "native": n, "want": r["want"], "asis": r["asis"], "fired": fired})
                    break
            if r["model"] != "":
                break
        if ok:
            accepted += 1
    if traces and len(samples) < 6:
        t = traces[0]
        samples.append({"direction": "B", "builds": [{"text": b["text"], "cfg": b["cfg"], "syms": b["syms"], "file": b["file"], "observed": b["obs"]["kind"]} for b in t["builds"]]})
    stats["b_traces"] += len(traces)
    stats["b_accepted"] += accepted
    return res


# ------------------------------------------------------------------------------------------------
def replay_one(pool, rec, say=print):
    """re-runs a stored violation; -> still failing?"""
    if rec["direction"] == "A":
        tmpl = E.TEMPLATE[rec["tmpl"]]
        desc = E.describe(tmpl, frozenset(x[1:] for x in rec["own"]), frozenset(x[1:] for x in rec["bn"]))
        cbs = concrete_builds(desc, tmpl, rec["builds"], rec["hid"])
        ans = pool.run([{"id": "r", "builds": cbs, "natives": ["globals", "globals_asis"]}])["r"]
        stats = {"builds": 0, "conform": 0, "better_than_asis": 0, "drift_state": 0}
        res = judge_history(desc, rec["builds"], cbs, ans, stats)
        for kind, k, det in res:
            say("replay: build %d %s %s" % (k, kind, json.dumps(det)[:600]))
        return any(kind == "violation" for kind, _, _ in res)
    # direction B: run the recorded history again, compare the failing build with the stored expectation
    builds = rec["builds"]
    ans = pool.run([{"id": "r", "builds": builds, "natives": []}])["r"]
    k = rec["k"]
    i = ans["impl"][k] if k < len(ans["impl"]) else None
    nb = [{"text": b["text"], "globals": {}} for b in builds]
    nb[k]["globals"] = globals_from(builds[k]["prog"], rec["want"]["res"])
    n = pool.run([{"id": "n", "impl": False, "builds": nb, "natives": ["globals"]}])["n"]["globals"][k]
    say("replay: build %d impl=%s native=%s" % (k, json.dumps(i)[:300], json.dumps(n)[:300]))
    return not same(i, n)


def run(prop, tier, seed, replay, keep):
    t0 = time.time()
    pool = Pool(16)
    try:
        if replay:
            rec = json.load(open(replay))
            bad = replay_one(pool, rec)
            return {"violations": [replay] if bad else [], "known_lines": [], "drift": 0, "level": "model_checking", "coverage": {},
                    "assumptions": [], "summary": {"replayed": 1}}
        import shutil
        shutil.rmtree(os.path.join(VERIF, "replays", PROP), ignore_errors=True)     # replays of this run only
        return _run(pool, tier, seed, keep, t0)
    finally:
        pool.close()


def _run(pool, tier, seed, keep, t0):
    thorough = tier == "thorough"
    wd = tlc.workdir("c12")
    stats = {"builds": 0, "conform": 0, "better_than_asis": 0, "drift_state": 0, "b_builds": 0, "b_traces": 0, "b_accepted": 0}
    found, known_hits, samples = [], {}, []
    cov = {"cfgs": {}, "mutations": {}}
    try:
        all_progs = E.prog_table()
        by_id = {d["id"]: d for d in all_progs}
        hist_t = HIST_ALL if thorough else HIST_QUICK
        universes = [
            ("programs", all_progs, mc_consts(MaxBuilds=1, Vers=1, FilePerBuild=True)),
            ("histories", [d for d in all_progs if d["tmpl"] in hist_t],
             mc_consts(MaxBuilds=3, Vers=2, FilePerBuild=thorough)),
            ("pair_histories", [d for d in all_progs if d["tmpl"] in PAIR_HIST and not d["bn"]],
             mc_consts(MaxBuilds=2, Vers=1 if not thorough else 2, FilePerBuild=False)),
        ]
        states = transitions = 0
        histories = []
        # TLC runs in a background thread (universes, then the mutation cfgs); the main thread replays the histories of a
        # universe as soon as TLC has enumerated it
        import queue
        q = queue.Queue()
        mut_results = {}

        def tlc_thread():
            try:
                for name, progs, consts in universes:
                    r = run_mc(name, progs, consts, INVARIANTS + ["Emit"], wd)
                    q.put((name, progs, consts, r))
                # mutation cfgs: every switch must be refuted on the property it breaks
                for sw, inv in MUTATION_TARGET.items():
                    if sw == "BytecodePatch312":
                        mut_progs = [d for d in all_progs if d["tmpl"] in ("expr", "expr_pair") and not d["bn"]]
                        mc = mc_consts(switch=sw, MaxBuilds=1, Vers=1, WithAsIs=False, EmitJson=False)
                    else:
                        mut_progs = [d for d in all_progs if d["tmpl"] in ("expr", "assign")]
                        mc = mc_consts(switch=sw, MaxBuilds=2, Vers=2, FilePerBuild=True, WithAsIs=False, EmitJson=False)
                    mut_results[sw] = run_mc("mut_" + sw, mut_progs, mc, [inv], wd, timeout=300)
                q.put(None)
            except BaseException as e:  # noqa
                q.put(e)
        th = threading.Thread(target=tlc_thread, daemon=True)
        th.start()
        rng = random.Random(seed)
        sample_cap = {"histories": 80000, "pair_histories": 40000} if thorough else {"histories": 4000, "pair_histories": 1200}
        jobs_meta, answers = {}, {}
        replay_wall = 0.0
        while True:
            item = q.get()
            if item is None:
                break
            if isinstance(item, BaseException):
                raise item
            name, progs, consts, r = item
            if r["violated"]:
                raise tlc.TLCError("the intended design violates %s on universe %s:\n%s" % (r["violated"], name, r["out"][-3000:]))
            hs = tlc.json_prints(r["out"], "c12")
            r["out"] = ""
            for h in hs:
                h["universe"] = name
            histories += hs
            states += r["distinct"]
            transitions += r["generated"]
            chosen = hs
            if name in sample_cap and len(hs) > sample_cap[name]:
                chosen = rng.sample(hs, sample_cap[name])
            cov["cfgs"][name] = {"programs": len(progs), "constants": {k: consts[k] for k in ("MaxBuilds", "Vers", "FilePerBuild")},
                                 "states": r["distinct"], "generated": r["generated"], "depth": r["depth"], "histories": len(hs),
                                 "histories_replayed": len(chosen), "wall_s": round(r["wall"], 1), "invariants": INVARIANTS, "exhaustive": True}
            # direction A: replay
            jobs = []
            for n, h in enumerate(chosen):
                desc = by_id[h["c12"]]
                tmpl = E.TEMPLATE[desc["tmpl"]]
                hid = "%s|%s|%d" % (h["c12"], name, n)
                cbs = concrete_builds(desc, tmpl, h["builds"], hid)
                jobs.append({"id": hid, "builds": cbs, "natives": ["globals"] + (["globals_asis"] if any("globals_asis" in c for c in cbs) else [])})
                jobs_meta[hid] = (desc, h, cbs)
            ta = time.time()
            answers.update(pool.run(jobs))
            replay_wall += time.time() - ta
        th.join()
        for sw, inv in MUTATION_TARGET.items():
            r = mut_results[sw]
            cov["mutations"][sw] = {"expected_violation": inv, "refuted": inv in r["violated"], "states": r["generated"], "wall_s": round(r["wall"], 1)}
            states += r["distinct"]
            transitions += r["generated"]
            if inv not in r["violated"]:
                raise tlc.TLCError("mutation %s was not refuted (%s holds): the specification is vacuous there" % (sw, inv))
        # vacuity witnesses measured on the enumerated histories
        wit = {"cache_hit": 0, "user_error": 0, "name_error": 0, "shadowing": 0, "unspecified_asis": 0, "nofile": 0}
        scopes = set()
        for h in histories:
            for b in h["builds"]:
                wit["cache_hit"] += "ModuleCacheKeepsCtx" in b["fired"]
                wit["user_error"] += b["want"]["kind"] == "EvalError" and b["want"]["cause"] != "NameError"
                wit["name_error"] += b["want"]["cause"] == "NameError"
                wit["shadowing"] += bool(set(table(b["cfg"])) & set(table(b["syms"])))
                wit["unspecified_asis"] += b["asis"]["kind"] == "unspecified"
                wit["nofile"] += not b["file"]
        for d in all_progs:
            for e in d["events"]:
                if e["op"] == "use":
                    scopes.add(e["scope"])
        cov["witnesses"] = wit
        cov["scopes"] = sorted(scopes)
        cov["features"] = sorted({f for t in E.TEMPLATES for f in t["feats"]})
        ks = known_switches()
        need = [k for k in wit if not (k == "cache_hit" and "ModuleCacheKeepsCtx" not in ks) and not (k == "unspecified_asis" and "BytecodePatch312" not in ks)]
        if not all(wit[k] for k in need):
            raise tlc.TLCError("vacuity: some witness class was never enumerated: %s" % wit)
        cov["known_switches"] = ks
        cov["replay_wall_s"] = round(replay_wall, 1)
        meta = jobs_meta
        nontriv = set()
        for hid, (desc, h, cbs) in meta.items():
            res = judge_history(desc, h["builds"], cbs, answers[hid], stats)
            if nontrivial(h["builds"]):
                nontriv.add(json.dumps([h["c12"], [[table(b["cfg"]), table(b["syms"]), b["file"]] for b in h["builds"]]], sort_keys=True))
            for kind, k, det in res:
                if kind == "machinery":
                    raise tlc.TLCError("descriptor of %s does not describe its native run: %s" % (h["c12"], json.dumps(det)[:500]))
                if kind == "known":
                    known_hits.setdefault(tuple(det["fired"]), []).append({"direction": "A", "prog": h["c12"], "k": k, "text": cbs[k]["text"], "impl": det["impl"]})
                else:
                    found.append({"prop": PROP, "direction": "A", "hid": hid, "tmpl": desc["tmpl"], "own": desc["own"], "bn": desc["bn"], "k": k,
                                  "universe": h["universe"], "builds": h["builds"][:k + 1], "text": cbs[k]["text"],
                                  "yaml": [E.yaml_of(c, c["node"]) for c in cbs[:k + 1]], "symbols": [c["syms"] for c in cbs[:k + 1]],
                                  "detail": det})
                    break
        for h in histories[:2] + histories[len(histories) // 2:len(histories) // 2 + 2]:
            desc = by_id[h["c12"]]
            samples.append({"direction": "A", "program": E.node_text(E.TEMPLATE[desc["tmpl"]], frozenset(x[1:] for x in desc["own"]), frozenset(x[1:] for x in desc["bn"])),
                            "builds": [{"cfg": table(b["cfg"]), "syms": table(b["syms"]), "file": b["file"], "want": b["want"], "asis": b["asis"]["kind"]} for b in h["builds"]]})
        # direction B
        nb = 6000 if thorough else 800
        rb = direction_b(pool, seed, nb, wd, stats, found, known_hits, samples)
        states += rb["distinct"]
        transitions += rb["generated"]
        cov["cfgs"]["traces"] = {"traces": stats["b_traces"], "accepted": stats["b_accepted"], "builds": stats["b_builds"], "states": rb["distinct"],
                                 "wall_s": round(rb["wall"], 1)}
    finally:
        if not keep:
            tlc.cleanup(wd)
    # verdicts: a difference is reported only if it reproduces (DESIGN 3.5): every candidate is run once more
    unconfirmed = 0
    confirmed = []
    for f in found[:400]:
        if replay_one(pool, f, say=lambda *_: None):
            confirmed.append(f)
        else:
            unconfirmed += 1
    found = confirmed + found[400:]
    cov["unconfirmed_candidates"] = unconfirmed
    violations = []
    seen_sig = set()
    for f in found:
        sig = json.dumps([f.get("tmpl") or f["builds"][-1]["text"], f["k"], f.get("detail", {}).get("impl", f.get("impl"))], sort_keys=True)[:400]
        if sig in seen_sig and len(violations) >= 5:
            continue
        seen_sig.add(sig)
        if len(violations) < 25:
            violations.append(write_replay(f))
    known_lines = []
    by_switch = {}
    for fired, hits in known_hits.items():
        for sw in fired:
            by_switch.setdefault(sw, []).extend(hits)
    for sw in sorted(by_switch):
        fid, site, what = KNOWN.get(sw, ("?", "?", sw))
        hits = by_switch[sw]
        ex = hits[0]
        known_lines.append("KNOWN-FINDING: property=%s %s deviation=%s at %s: %s [%d builds explained, e.g. %r -> %s]" % (
            PROP, fid, sw, site, what, len(hits), ex["text"][:60], json.dumps({k: v for k, v in ex["impl"].items() if k in ("kind", "cause", "signal", "value")})[:120]))
    cov.update({
        "states": states, "transitions": transitions,
        "traces_validated_against_impl": len(meta) + stats["b_accepted"],
        "evaluations": stats["builds"] + stats["b_builds"],
        "distinct_nontrivial": len(nontriv),
        "rule": "TLC enumerates program (template x own-definition subset x builtin-named subset) x per build (config entries, symbols, versions, "
                "file flag) x histories up to 3 builds; every complete history is replayed in a freshly forked process against Config.build and "
                "against native exec/eval with the values the specification resolved. A history is non-trivial when a name has two candidate "
                "sources in some build or two consecutive builds differ in config / symbols; distinct by (program, build arguments).",
        "exhaustive": True,
        "samples": samples[:8],
        "histories_enumerated": len(histories), "histories_replayed": len(meta), "builds_compared": stats["builds"], "builds_conforming": stats["conform"],
        "known_finding_builds": {sw: len(v) for sw, v in by_switch.items()},
        "templates": len(E.TEMPLATES), "programs": len(all_progs),
        "trace_validation": {"recorded": stats["b_traces"], "accepted": stats["b_accepted"], "builds": stats["b_builds"]},
        "violations_found": len(found),
        "drift": {"state": stats["drift_state"], "better_than_asis": stats["better_than_asis"], "samples": stats.get("drift_samples", [])[:5]},
    })
    drift = stats["drift_state"] + stats["better_than_asis"]
    return {"violations": violations, "known_lines": known_lines, "drift": drift, "level": "model_checking", "coverage": cov,
            "assumptions": ["CPython %s is the oracle for the semantics of a skeleton (native exec/eval with plain globals)" % sys.version.split()[0],
                            "program descriptors (events, code-object facts) are derived from CPython's compile/dis/opcode trace of the same text and "
                            "cross-checked against the native run of every history",
                            "values are opaque truthy strings / builtin functions: skeleton control flow does not depend on which source supplied a name",
                            "one !eval / f-string node per document under the top-level key r; programs of a TLC history share one text",
                            "TLC bounded constants: <= 3 builds, <= 2 value versions, <= 2 free names per program"],
            "summary": {"histories": len(meta), "builds": stats["builds"], "conform": stats["conform"], "traces": stats["b_traces"],
                        "accepted": stats["b_accepted"], "states": states, "found": len(found)}}


META = {"engine": "evalns", "design_ref": "DESIGN.md 5/C12",
        "technique": "TLC model checking of the name-resolution machine (AyEvalNS, three-instance composition: history / fresh process / as-is) + "
                     "differential execution of every enumerated history (native CPython vs Config.build, one forked process per history) + "
                     "trace validation of recorded random histories",
        "text": "TLC decides resolution order (own definition, symbol, config entry, builtin at any scope), the exec/eval split, error wrapping "
                "and history independence (outcome of build k equals the outcome of the same build in a fresh process) for every template x "
                "source assignment x build sequence; CPython itself decides what a skeleton computes from the resolved names.",
        "note": "known deviations BytecodePatch312 / NoFilenameCompile / ModuleCacheKeepsCtx are identified by call site + mechanism (facts of the "
                "compiled code objects, file flag, cache hit), not by input"}
ENGINE = {"name": "evalns", "path": "harness/c12.py, harness/evalns.py, spec/AyEvalNS.tla, spec/MC_EvalNS.tla, spec/Trace_EvalNS.tla",
          "serves_properties": ["C12"],
          "kind_free_text": "TLC (exhaustive, 3-instance self-composition) + forking differential runner + TLC trace validation"}
