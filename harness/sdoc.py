"""Surface documents (SDoc): the JSON mirror of the TLA+ record of AyParse.tla,
their rendering to YAML text, and a seeded random generator.

JSON shape (exactly what JsonDeserialize hands to TLC):
  {"k": kind, "v": [type, text], "ch": [[key, sdoc], ...], "fn": str, "ref": [key...],
   "form": "none"|"tag"|"md", "pr": 9|-1|0|1, "del": "N"|"T"|"F", "anew": ..., "safe": ..., "md": [[name, atom], ...]}
key = {"t": "s"|"i"|"f", "n": int, "s": str}
"""
import json
import random

NOVAL = ["", ""]


def skey(s):
    return {"t": "s", "n": 0, "s": s}


def ikey(i):
    return {"t": "i", "n": i, "s": ""}


def fkey(s):
    return {"t": "f", "n": 0, "s": s}


def key_py(k):
    if k["t"] == "s":
        return k["s"]
    if k["t"] == "i":
        return k["n"]
    return float(k["s"])


def key_of_py(k):
    if isinstance(k, bool):
        raise ValueError("bool key")
    if isinstance(k, int):
        return ikey(int(k))
    if isinstance(k, float):
        return fkey(repr(float(k)))
    return skey(str(k))


def atom_py(a):
    t, s = a
    if t == "i":
        return int(s)
    if t == "s":
        return s
    if t == "f":
        return float(s)
    if t == "b":
        return s == "T"
    if t == "n":
        return None
    raise ValueError(a)


def atom_of_py(v):
    if v is None:
        return ["n", ""]
    if isinstance(v, bool):
        return ["b", "T" if v else "F"]
    if isinstance(v, int):
        return ["i", str(int(v))]
    if isinstance(v, float):
        return ["f", repr(float(v))]
    if isinstance(v, str):
        return ["s", str(v)]
    return ["o", type(v).__name__]


def SD(k, v=None, ch=None, **kw):
    d = {"k": k, "v": v if v is not None else list(NOVAL), "ch": ch or [], "fn": "", "ref": [],
         "form": "none", "pr": 9, "del": "N", "anew": "N", "safe": "N", "md": []}
    d.update(kw)
    return d


def leaf(pyval, **kw):
    return SD("scalar", atom_of_py(pyval), **kw)


def mapping(items, **kw):
    return SD("dict", None, [[key_of_py(k) if not isinstance(k, dict) else k, v] for k, v in items], **kw)


def sequence(items, **kw):
    return SD("list", None, [[ikey(i), v] for i, v in enumerate(items)], **kw)


TAGS = {
    "force": {"pr": 1}, "weak": {"pr": -1}, "del": {"del": "T"}, "merge": {"del": "F"},
    "new": {"anew": "T"}, "notnew": {"anew": "F"}, "unsafe": {"safe": "F"},
}


def with_tag(sd, tag):
    if tag == "none":
        return sd
    r = dict(sd)
    r["form"] = "tag"
    r.update(TAGS[tag])
    return r


# ---------------------------------------------------------------------------
# rendering

import re as _re
_LOOKS_TYPED = _re.compile(r"^([0-9]+|[0-9]+\.[0-9]+|true|false|null|yes|no)$")


def _scalar_text(a):
    t, s = a
    if t == "i":
        return s
    if t == "f":
        return s
    if t == "b":
        return "true" if s == "T" else "false"
    if t == "n":
        return "~"
    if t == "s":
        return json.dumps(s)
    raise ValueError(a)


def _key_text(k):
    if k["t"] == "i":
        return str(k["n"])
    if k["t"] == "f":
        return k["s"]
    s = k["s"]
    if s and all(c.isalnum() or c == "_" for c in s) and not s[0].isdigit() and s not in ("null", "true", "false", "yes", "no", "on", "off", "y", "n"):
        return s
    return json.dumps(s)


def _path_text(ref):
    out = ""
    for k in ref:
        if k["t"] == "i":
            out += f"[{k['n']}]"
        else:
            out += ("." if out else "") + k["s"]
    return out


def _md_literal(sd):
    d = {}
    for name, a in sd.get("md", []):
        d[name] = atom_py(a)
    if sd["pr"] != 9:
        d["priority"] = sd["pr"]
    for fld, name in (("del", "delete"), ("anew", "allow_new"), ("safe", "safe")):
        if sd[fld] != "N":
            d[name] = sd[fld] == "T"
    return repr(d)


_PLAIN_TAG = {("pr", 1): "!force", ("pr", -1): "!weak", ("del", "T"): "!del", ("del", "F"): "!merge",
              ("anew", "T"): "!new", ("anew", "F"): "!notnew", ("safe", "F"): "!unsafe"}

_KIND_TAG = {"required": "!required", "xref": "!xref", "clear": "!clear", "append": "!append",
             "extend": "!extend", "prev": "!prev", "include": "!include", "eval": "!eval",
             "fstr": "!fstr", "import": "!import", "null": "!null", "rec": "!rec"}
_MD_OK_KIND = {"xref", "bind", "call", "eval", "required", "null", "path", "clear", "extend"}


def tag_text(sd):
    """The tag (possibly with {{...}} metadata) written in front of the node, or ''."""
    k = sd["k"]
    flags = [(f, sd[f]) for f in ("pr", "del", "anew", "safe") if sd[f] not in (9, "N")]
    if k in ("dict", "list", "scalar"):
        if sd["form"] == "none":
            return ""
        if sd["form"] == "tag":
            assert len(flags) == 1 and not sd["md"], sd
            return _PLAIN_TAG[flags[0]]
        return "!metadata{" + _md_literal(sd) + "}"
    if k in ("call", "bind"):
        base = f"!{k}:{sd['fn']}"
    elif k == "path":
        base = "!path" + (":" + sd["fn"] if sd["fn"] else "")
    else:
        base = _KIND_TAG[k]
    if flags or sd["md"] or sd["form"] == "md":
        assert k in _MD_OK_KIND, (k, sd)
        if k == "path" and not sd["fn"]:
            raise ValueError("!path needs a reference point to carry metadata")
        return base + "{" + _md_literal(sd) + "}"
    return base


def render(sd, indent=0, top=True):
    """Block-style YAML text of a surface document."""
    lines = _render(sd, indent)
    return "\n".join(lines) + "\n"


def _render(sd, ind):
    """Returns lines; the first line is meant to follow 'key:' or '-' (caller joins)."""
    pad = " " * ind
    tag = tag_text(sd)
    k = sd["k"]
    if k in ("dict", "call", "bind") or (k in ("list", "append", "extend", "path", "include") and k != "include"):
        pass
    if k in ("dict", "call", "bind"):
        if not sd["ch"]:
            return [(tag + " " if tag else "") + "{}"]
        out = [tag] if tag else [""]
        for key, c in sd["ch"]:
            sub = _render(c, ind + 2)
            first = sub[0]
            line = pad + _key_text(key) + ":" + ((" " + first) if first else "")
            out.append(line)
            out.extend(sub[1:])
        return out
    if k in ("list", "append", "extend", "path"):
        if not sd["ch"]:
            return [(tag + " " if tag else "") + "[]"]
        out = [tag] if tag else [""]
        for _, c in sd["ch"]:
            sub = _render(c, ind + 2)
            first = sub[0]
            out.append(pad + "-" + ((" " + first) if first else ""))
            out.extend(sub[1:])
        return out
    if k == "scalar":
        if sd["v"] == ["n", ""] and tag:
            return [tag]          # value-less tagged node (e.g. `a: !del`)
        if sd["v"] == ["n", ""] and _NULL_STYLE[0] == "empty" and ind > 0:
            return [""]           # an untagged null written as an EMPTY entry (`a:` / a bare `-`): the same YAML value as `~`
        if sd["v"][0] == "s" and _LOOKS_TYPED.match(sd["v"][1]) and (len(sd["v"][1]) + len(tag)) % 2 == 0:
            # a string that looks like a number / bool / null: every other one is written as a BLOCK scalar
            # (still a string for YAML, whatever tag is in front of it)
            return [(tag + " " if tag else "") + "|-", pad + "  " + sd["v"][1]]
        return [(tag + " " if tag else "") + _scalar_text(sd["v"])]
    if k in ("required", "clear", "null"):
        return [tag]
    if k in ("xref", "prev"):
        return [tag + " " + _path_text(sd["ref"])]
    if k == "include":
        names = [atom_py(c["v"]) for _, c in sd["ch"]]
        if sd.get("short") and len(names) == 1:
            return [tag + " " + json.dumps(names[0])]
        return [tag + " [" + ", ".join(json.dumps(n) for n in names) + "]"]
    if k == "fstr" and sd["ref"] and sd["v"][1].startswith("f'") and sd["v"][1].endswith("'"):
        return [tag + " " + json.dumps(sd["v"][1][2:-1])]      # the node's text is f'<body>': `!fstr "<body>"` writes the body
    if k in ("eval", "fstr", "import"):
        return [tag + " " + json.dumps(atom_py(sd["v"]))]
    if k == "rec":
        # !rec [name, ...]: the names are scalars (possibly tagged, e.g. `!unsafe "f.yaml"`)
        items = []
        for _, c in sd["ch"]:
            assert c["k"] == "scalar" and c["v"][0] == "s", c
            ct = tag_text(c)
            items.append((ct + " " if ct else "") + json.dumps(c["v"][1]))
        return [tag + " [" + ", ".join(items) + "]"]
    raise ValueError(k)


_NULL_STYLE = ["~"]


def render_doc(sd):
    """A whole document.  A block mapping/sequence at top level starts on its own line.
    Untagged nulls are written as `~` in one half of the documents and as empty entries in the other half
    (decided by the content of the document, so that a document always has the same text)."""
    import hashlib
    _NULL_STYLE[0] = "empty" if hashlib.sha1(json.dumps(sd, sort_keys=True).encode()).digest()[0] % 2 else "~"
    try:
        lines = _render(sd, 0)
    finally:
        _NULL_STYLE[0] = "~"
    if lines[0] == "":
        lines = lines[1:]
    return "\n".join(lines) + "\n"


def render_stream(sds):
    return "".join("---\n" + render_doc(sd) for sd in sds)


# ---------------------------------------------------------------------------
# tag-free reading

def erase(sd):
    """Plain Python data of the tag-free document."""
    k = sd["k"]
    if k in ("dict",):
        return {key_py(key): erase(c) for key, c in sd["ch"]}
    if k == "list":
        return [erase(c) for _, c in sd["ch"]]
    if k == "scalar":
        return atom_py(sd["v"])
    raise ValueError(k)


# ---------------------------------------------------------------------------
# seeded generator

class Gen:
    def __init__(self, rng, keys=("a", "b", "c"), atoms=(1, 2, 3, "x", None, 0, True, 2.5), tags=("none",),
                 max_depth=3, max_width=3, int_keys=False, p_list=0.3, p_tag=0.3, p_empty=0.1, list_elems_tagged=True,
                 p_call=0.0, leaf_extra=()):
        self.rng = rng
        self.keys = list(keys)
        self.atoms = list(atoms)
        self.tags = list(tags)
        self.max_depth = max_depth
        self.max_width = max_width
        self.p_list = p_list
        self.p_tag = p_tag
        self.p_empty = p_empty
        self.list_elems_tagged = list_elems_tagged
        self.p_call = p_call
        self.leaf_extra = list(leaf_extra)

    def tag(self, sd, allowed=None):
        tags = allowed if allowed is not None else self.tags
        if tags and self.rng.random() < self.p_tag:
            t = self.rng.choice(tags)
            if t == "md":
                r = dict(sd)
                r["form"] = "md"
                r["md"] = [[self.rng.choice(["m", "n"]), atom_of_py(self.rng.choice([1, 2]))]]
                return r
            return with_tag(sd, t)
        return sd

    def node(self, depth, in_list=False):
        r = self.rng.random()
        if self.p_call and self.rng.random() < self.p_call:
            n = self.rng.randint(0, 2)
            ks = self.rng.sample(self.keys, min(n, len(self.keys)))
            sd = SD("call", None, [[key_of_py(k), leaf(self.rng.choice(self.atoms))] for k in ks], fn="m.f", form="tag")
            return sd
        if self.leaf_extra and self.rng.random() < 0.12:
            return json.loads(json.dumps(self.rng.choice(self.leaf_extra)))
        if depth <= 0 or r < 0.35:
            sd = leaf(self.rng.choice(self.atoms))
        elif r < 0.35 + self.p_list * 0.65:
            n = 0 if self.rng.random() < self.p_empty else self.rng.randint(1, self.max_width)
            sd = sequence([self.node(depth - 1, True) for _ in range(n)])
        else:
            sd = self.map(depth)
            return sd if not in_list or self.list_elems_tagged else sd
        if in_list and not self.list_elems_tagged:
            return sd
        return self.tag(sd)

    def map(self, depth, tagged=True):
        n = 0 if self.rng.random() < self.p_empty else self.rng.randint(1, min(self.max_width, len(self.keys)))
        ks = self.rng.sample(self.keys, n)
        sd = mapping([(k, self.node(depth - 1)) for k in ks])
        return self.tag(sd) if tagged else sd

    def doc(self):
        return self.map(self.max_depth)


# ---------------------------------------------------------------------------
# command-line overrides (config.py process_cmdline): `a.b[0].c=value`

def _is_plain(sd):
    return sd["form"] == "none" and sd["k"] in ("dict", "list", "scalar") and all(_is_plain(c) for _, c in sd["ch"])


def _is_chain(sd):
    if sd["k"] == "dict" and len(sd["ch"]) == 1:
        return sd["form"] == "none" and _is_chain(sd["ch"][0][1])
    return _is_plain(sd) and sd["k"] != "dict"


def is_override_doc(sd):
    return (sd["k"] == "dict" and sd["form"] == "tag" and sd["anew"] == "F" and sd["pr"] == 9 and sd["del"] == "N"
            and sd["safe"] == "N" and len(sd["ch"]) == 1 and sd["ch"][0][0]["t"] == "s" and _is_chain(sd["ch"][0][1]))


def _flow(sd):
    if sd["k"] == "scalar":
        return _scalar_text(sd["v"])
    if sd["k"] == "list":
        return "[" + ", ".join(_flow(c) for _, c in sd["ch"]) + "]"
    if sd["k"] == "dict":
        return "{" + ", ".join(_key_text(k) + ": " + _flow(c) for k, c in sd["ch"]) + "}"
    raise ValueError(sd["k"])


def override_option(sd):
    """the inline option text whose process_cmdline expansion is the document sd"""
    path = ""
    node = sd
    while node["k"] == "dict" and len(node["ch"]) == 1 and (node is sd or node["form"] == "none"):
        k, c = node["ch"][0]
        if k["t"] == "i":
            path += f"[{k['n']}]"
        else:
            path += ("." if path else "") + k["s"]
        node = c
    return path + "=" + _flow(node)
