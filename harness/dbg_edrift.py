"""Show model-vs-library disagreements (drift) among an eval-family property's random configs.
Usage: dbg_edrift.py C07 [seed] [tier]"""
import sys, os, json, random
sys.path.insert(0, os.path.dirname(os.path.abspath(__file__)))
import registry, evalfam, engine as E, tlc, sdoc as S
prop = sys.argv[1]; seed = int(sys.argv[2]) if len(sys.argv) > 2 else 0; tier = sys.argv[3] if len(sys.argv) > 3 else "quick"
spec = registry.EVAL[prop]
rng = random.Random(seed)
hs = []
for tid in range(1, spec["random"][tier] + 1):
    docs, safes = spec["gen"](rng, spec.get("max_stages", 2))
    hs.append((tid, docs, safes))
life = bool(spec.get("lifecycle"))
wd = tlc.workdir("edrift")
if spec.get("rec_files"):
    recdir = os.path.join(wd, "recfiles"); os.makedirs(recdir, exist_ok=True)
    for name, sd in spec["rec_files"].items():
        open(os.path.join(recdir, name), "w").write(S.render_doc(sd))
    json.dump([{"name": n, "doc": sd} for n, sd in sorted(spec["rec_files"].items())], open(os.path.join(recdir, "rec_files.json"), "w"))
    os.environ["REC_FILES"] = os.path.join(recdir, "rec_files.json"); os.chdir(recdir)
traces = [t for t in evalfam.record(hs, life, bool(spec.get("with_docs")))]
usable = [t for t in traces if "skip" not in t]
wd = tlc.workdir("edrift")
import registry as _r
rows, st, tr = evalfam.validate(prop, usable, wd)
bad = [t for t in usable if rows[t["tid"]][0] != "ok" or rows[t["tid"]][1] == "violated" or rows[t["tid"]][2] == "violated"]
print("drift/violations:", len(bad), "of", len(usable))
for t in sorted(bad, key=lambda t: len(json.dumps(t)))[:int(os.environ.get("SHOW", "4"))]:
    tid = t["tid"]; docs, safes = hs[tid - 1][1], hs[tid - 1][2]
    print("----", tid, rows[tid][:3], "safes", safes, "library status", t["status"])
    for d in docs: print(S.render_doc(d).rstrip()); print("  ---")
    print("calls", json.dumps(t.get("calls"))[:400])
tlc.cleanup(wd)
